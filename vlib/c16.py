"""C16 — a context always shows the last locale set; sub-contexts are isolated.
Theorems: lean/I18nVerif/Theorems/C16.lean.  Correspondence: harness ctx_h (`ops`: a tree of real `I18nContext`s under
`ssr`, scoped views through `scope_i18n!` / `I18nContext::scope`, `t!` / `t_string!` / `tu_string!` / `t_display!` /
`td_string!` closures re-invoked) vs the Lean cell machine `Context.run`; property oracle = the history specification
`Context.Spec.observations`, compared with the implementation's observation after every step."""
from .common import *

RULE = ("random operation sequences (1..200 operations) over {make_memo(view, kind in locale/t_string/td_string/t_display/t_plural), "
        "read_memo(i), provide_root (the real <I18nContextProvider>), provide_again(owner) (a nested <I18nContextProvider>: must hand over the existing context), child_owner(owner), provider(owner, optional initial "
        "locale) (the real <I18nSubContextProvider>, children capture use_i18n() and their owner), use_ctx(owner), and the "
        "composite pattern 'set_locale_untracked(x); set_locale(x) through a view of the same context; read earlier memos'} "
        "in MIXED sequences with {new_root, sub(parent view or none, optional initial locale), "
        "scope(view), set(view, locale), set_untracked(view, locale), get(view), get_untracked(view), "
        "make_closure(view, kind in t/t_string/tu_string/t_display/td_string/t_plural), call_closure(i)} on a growing forest of "
        "contexts; a quarter of the sequences use tracked sets only and also derive `Memo`s from the contexts; plus hand-written sequences (deep sub-context chains, scope cycles root->sub->deep->root keys, closures "
        "created before many sets); after every step the implementation's observation is compared with the model's and the "
        "specification's, and at the end every view is read back; non-trivial = the sequence contains a set after which some "
        "view or closure of the same context is observed; distinct = distinct sequences")

KINDS = ["t", "t_string", "tu_string", "t_display", "td_string", "t_plural"]
PREFIX = {0: "hello_", 1: "inner_", 2: "leaf_"}


MEMO_KINDS = ["locale", "t_string", "td_string", "t_display", "t_plural"]
# CLDR cardinal category of 0 (the count the harness gives to `t_plural!`): `one` in French, `other` in English and German
CAT0 = {"en": "other", "en-US": "other", "de": "other", "fr": "one", "fr-CA": "one"}


def gen_sequence(rng, names, maxlen, tracked_only=False):
    """tracked_only: no `set_locale_untracked` in the sequence; then closures of kind "memo" are created as well (they
    are compared like plain closures, which is only right without untracked sets).  The explicit memo operations
    (`make_memo` / `read_memo`) are generated in every sequence: the model knows about laziness."""
    n = rng.range(1, maxlen)
    steps = []
    nviews, nclosures, nmemos, nowners = 0, 0, 0, 0
    alias = []        # view -> representative view of the same context, as far as the generator knows

    def new_view(rep=None):
        nonlocal nviews
        alias.append(nviews if rep is None else alias[rep])
        nviews += 1

    def same_ctx_view(v):
        cands = [w for w in range(nviews) if alias[w] == alias[v]]
        return rng.pick(cands)

    while len(steps) < n:
        if nviews == 0:
            op = rng.weighted([(6, "new_root"), (4, "provide_root"), (1, "sub_orphan")])
        else:
            op = rng.weighted([(2, "new_root"), (2, "provide_root"), (6, "sub"), (1, "sub_orphan"), (9, "scope"), (16, "set"),
                               (0 if tracked_only else 10, "set_untracked"), (10, "get"), (6, "get_untracked"),
                               (7, "make_closure"), (12 if nclosures else 0, "call_closure"),
                               (8, "make_memo"), (16 if nmemos else 0, "read_memo"),
                               (0 if tracked_only or not nmemos else 8, "pattern_same_value"),
                               (3 if nowners else 0, "child_owner"), (7 if nowners else 0, "provider"),
                               (9 if nowners else 0, "use_ctx"), (4 if nowners else 0, "provide_again")])
        if op == "new_root":
            steps.append({"op": "new_root", "accept_language": rng.pick(names) if rng.chance(4, 5) else None})
            new_view()
        elif op == "provide_root":
            steps.append({"op": "provide_root", "accept_language": rng.pick(names) if rng.chance(4, 5) else None})
            new_view()
            nowners += 1
        elif op == "sub":
            steps.append({"op": "sub", "parent": rng.below(nviews), "initial": rng.pick(names) if rng.chance(2, 5) else None})
            new_view()
        elif op == "sub_orphan":
            steps.append({"op": "sub", "parent": None, "initial": rng.pick(names) if rng.chance(1, 2) else None})
            new_view()
        elif op == "scope":
            v = rng.below(nviews)
            steps.append({"op": "scope", "view": v})
            new_view(v)
        elif op in ("set", "set_untracked"):
            steps.append({"op": op, "view": rng.below(nviews), "locale": rng.pick(names)})
        elif op in ("get", "get_untracked"):
            steps.append({"op": op, "view": rng.below(nviews)})
        elif op == "make_closure":
            kind = "memo" if tracked_only and rng.chance(1, 2) else rng.pick(KINDS)
            steps.append({"op": "make_closure", "view": rng.below(nviews), "kind": kind})
            nclosures += 1
        elif op == "call_closure":
            steps.append({"op": "call_closure", "closure": rng.below(nclosures)})
        elif op == "make_memo":
            steps.append({"op": "make_memo", "view": rng.below(nviews), "kind": rng.pick(MEMO_KINDS)})
            nmemos += 1
        elif op == "read_memo":
            steps.append({"op": "read_memo", "memo": rng.below(nmemos)})
        elif op == "pattern_same_value":
            # untracked set to x, then a tracked set to the same x through a view of the same context (often a scoped
            # one), then read memos created earlier
            v = rng.below(nviews)
            x = rng.pick(names)
            steps.append({"op": "set_untracked", "view": v, "locale": x})
            if rng.chance(1, 3):
                steps.append({"op": "read_memo", "memo": rng.below(nmemos)})
            steps.append({"op": "set", "view": same_ctx_view(v) if rng.chance(5, 6) else rng.below(nviews), "locale": x})
            for m in rng.sample(list(range(nmemos)), min(nmemos, rng.range(1, 5))):
                steps.append({"op": "read_memo", "memo": m})
        elif op == "child_owner":
            steps.append({"op": "child_owner", "owner": rng.below(nowners)})
            nowners += 1
        elif op == "provider":
            # siblings: prefer owners that already have providers below them
            steps.append({"op": "provider", "owner": rng.below(nowners), "initial": rng.pick(names) if rng.chance(1, 3) else None})
            new_view()
            nowners += 1
        elif op == "use_ctx":
            # every owner descends from a provide_root, so a context is always found
            steps.append({"op": "use_ctx", "owner": rng.below(nowners)})
            new_view()
        elif op == "provide_again":
            # a nested `<I18nContextProvider>`: its children get the context already provided above (the model's `use_ctx`)
            steps.append({"op": "provide_again", "owner": rng.below(nowners)})
            new_view()
    return steps


def corpus(names):
    seqs = []
    # deep chain of sub-contexts, each created from the previous one, then sets at every level, reads everywhere
    s = [{"op": "new_root", "accept_language": "fr"}]
    for d in range(12):
        s.append({"op": "sub", "parent": d, "initial": None})
    for d in range(13):
        s.append({"op": "make_closure", "view": d, "kind": KINDS[d % 5]})
    for d in range(13):
        s.append({"op": "set" if d % 2 else "set_untracked", "view": d, "locale": names[d % len(names)]})
        for e in range(13):
            s.append({"op": "get", "view": e})
            s.append({"op": "call_closure", "closure": e})
    seqs.append(s)
    # scope cycle: root keys -> sub -> deep -> root keys -> ...; set through each, observe through all
    s = [{"op": "new_root", "accept_language": None}]
    for d in range(9):
        s.append({"op": "scope", "view": d})
    for d in range(10):
        s.append({"op": "make_closure", "view": d, "kind": KINDS[(d + 2) % 5]})
    for d in range(10):
        s.append({"op": "set_untracked" if d % 3 == 0 else "set", "view": d, "locale": names[(d + 1) % len(names)]})
        for e in range(10):
            s.append({"op": "get_untracked", "view": e})
            s.append({"op": "call_closure", "closure": e})
    seqs.append(s)
    # sub-context from a scoped view, with and without initial locale; parent and child set alternately
    s = [{"op": "new_root", "accept_language": "de"}, {"op": "scope", "view": 0}, {"op": "scope", "view": 1},
         {"op": "sub", "parent": 2, "initial": None}, {"op": "sub", "parent": 1, "initial": "fr-CA"},
         {"op": "scope", "view": 3}, {"op": "make_closure", "view": 0, "kind": "t"},
         {"op": "make_closure", "view": 5, "kind": "t"}, {"op": "make_closure", "view": 4, "kind": "td_string"}]
    for k in range(8):
        s.append({"op": "set", "view": [0, 3, 4, 2, 5][k % 5], "locale": names[k % len(names)]})
        for v in range(6):
            s.append({"op": "get", "view": v})
        for c in range(3):
            s.append({"op": "call_closure", "closure": c})
    seqs.append(s)
    # tracked sets only: memos derived from every view before the sets must follow them
    s = [{"op": "new_root", "accept_language": "fr"}, {"op": "scope", "view": 0}, {"op": "scope", "view": 1},
         {"op": "sub", "parent": 1, "initial": None}, {"op": "scope", "view": 3}]
    for v in range(5):
        s.append({"op": "make_closure", "view": v, "kind": "memo"})
    for c in range(5):
        s.append({"op": "call_closure", "closure": c})
    for k in range(10):
        s.append({"op": "set", "view": (k * 3) % 5, "locale": names[(k + 1) % len(names)]})
        for c in range(5):
            s.append({"op": "call_closure", "closure": c})
    seqs.append(s)
    # MIXED: memos of every kind on a context, its scoped views and a sub-context; for each locale x:
    # set_locale_untracked(x), reads (stale by design), set_locale(x) — same value — through another view, reads (fresh)
    s = [{"op": "new_root", "accept_language": "fr"}, {"op": "scope", "view": 0}, {"op": "scope", "view": 1},
         {"op": "sub", "parent": 2, "initial": None}, {"op": "scope", "view": 3}]
    nm = 0
    for v in range(5):
        for kind in MEMO_KINDS:
            s.append({"op": "make_memo", "view": v, "kind": kind})
            nm += 1
    for m in range(nm):
        s.append({"op": "read_memo", "memo": m})
    for k, x in enumerate(names + names[:2]):
        a, b = [(0, 2), (1, 0), (2, 1), (3, 4), (4, 3), (0, 0), (4, 4)][k]
        s.append({"op": "set_untracked", "view": a, "locale": x})
        for m in range(0, nm, 2):
            s.append({"op": "read_memo", "memo": m})
        s.append({"op": "set", "view": b, "locale": x})
        for m in range(nm):
            s.append({"op": "read_memo", "memo": m})
        s.append({"op": "make_memo", "view": a, "kind": MEMO_KINDS[k % 3]})
        nm += 1
        s.append({"op": "read_memo", "memo": nm - 1})
    seqs.append(s)
    # never-read memo, then untracked + tracked same value; memo on a scoped view only
    s = [{"op": "new_root", "accept_language": "en-US"}, {"op": "scope", "view": 0}, {"op": "make_memo", "view": 1, "kind": "t_string"},
         {"op": "make_memo", "view": 0, "kind": "locale"}, {"op": "read_memo", "memo": 1},
         {"op": "set_untracked", "view": 1, "locale": "de"}, {"op": "set", "view": 1, "locale": "de"},
         {"op": "read_memo", "memo": 0}, {"op": "read_memo", "memo": 1},
         {"op": "set_untracked", "view": 0, "locale": "fr"}, {"op": "read_memo", "memo": 0}, {"op": "set", "view": 0, "locale": "fr"},
         {"op": "read_memo", "memo": 0}, {"op": "read_memo", "memo": 1}]
    seqs.append(s)
    # providers: root provided in owner 0; sibling providers with / without initial locale; use_i18n() in the parent
    # owner after each provider returned; set through the context found in the parent owner; nested providers
    s = [{"op": "provide_root", "accept_language": "fr"},                 # view 0, owner 0, ctx 0
         {"op": "provider", "owner": 0, "initial": "de"},                 # view 1, owner 1, ctx 1
         {"op": "use_ctx", "owner": 0},                                   # view 2 -> ctx 0
         {"op": "provider", "owner": 0, "initial": None},                 # view 3, owner 2, ctx 2 (starts fr, not de)
         {"op": "get", "view": 3}, {"op": "use_ctx", "owner": 0},         # view 4 -> ctx 0
         {"op": "set", "view": 4, "locale": "en-US"},                     # parent only
         {"op": "get", "view": 0}, {"op": "get", "view": 1}, {"op": "get", "view": 3},
         {"op": "provider", "owner": 0, "initial": None},                 # view 5, owner 3, ctx 3 (starts en-US)
         {"op": "get", "view": 5},
         {"op": "set", "view": 1, "locale": "fr-CA"}, {"op": "set_untracked", "view": 3, "locale": "de"},
         {"op": "provider", "owner": 0, "initial": None},                 # view 6, owner 4, ctx 4 (still en-US)
         {"op": "get", "view": 6}, {"op": "use_ctx", "owner": 1}, {"op": "use_ctx", "owner": 2},   # views 7 -> ctx1, 8 -> ctx2
         {"op": "provider", "owner": 1, "initial": None},                 # nested under the first sibling: view 9, owner 5, starts fr-CA
         {"op": "get", "view": 9}, {"op": "use_ctx", "owner": 1}, {"op": "use_ctx", "owner": 0},   # views 10 -> ctx1, 11 -> ctx0
         {"op": "child_owner", "owner": 5}, {"op": "use_ctx", "owner": 6},                         # owner 6; view 12 -> ctx 5
         {"op": "provider", "owner": 6, "initial": "en"}, {"op": "use_ctx", "owner": 6}, {"op": "use_ctx", "owner": 5},
         {"op": "set", "view": 12, "locale": "de"}, {"op": "get", "view": 9}, {"op": "get", "view": 1}, {"op": "get", "view": 0}]
    for v in range(16):
        s.append({"op": "get_untracked", "view": v})
    seqs.append(s)
    # two provided roots side by side, providers under each, memos on the contexts found through use_i18n()
    s = [{"op": "provide_root", "accept_language": "de"}, {"op": "provide_root", "accept_language": None},
         {"op": "provider", "owner": 1, "initial": None}, {"op": "provider", "owner": 0, "initial": None},
         {"op": "use_ctx", "owner": 0}, {"op": "use_ctx", "owner": 1}, {"op": "use_ctx", "owner": 2}, {"op": "use_ctx", "owner": 3},
         {"op": "make_memo", "view": 4, "kind": "locale"}, {"op": "make_memo", "view": 6, "kind": "t_string"},
         {"op": "read_memo", "memo": 0}, {"op": "read_memo", "memo": 1},
         {"op": "set_untracked", "view": 0, "locale": "fr"}, {"op": "set", "view": 4, "locale": "fr"},
         {"op": "read_memo", "memo": 0}, {"op": "read_memo", "memo": 1},
         {"op": "set", "view": 2, "locale": "fr-CA"}, {"op": "read_memo", "memo": 1}, {"op": "read_memo", "memo": 0},
         {"op": "provider", "owner": 1, "initial": None}, {"op": "get", "view": 8}]
    seqs.append(s)
    # sub-contexts without any parent context, several roots
    s = [{"op": "sub", "parent": None, "initial": None}, {"op": "sub", "parent": None, "initial": "fr"},
         {"op": "new_root", "accept_language": "en-US"}, {"op": "new_root", "accept_language": "xx"},
         {"op": "sub", "parent": 3, "initial": None}]
    for v in range(5):
        s.append({"op": "get", "view": v})
    s += [{"op": "set", "view": 3, "locale": "de"}, {"op": "get", "view": 4}, {"op": "get", "view": 3}]
    seqs.append(s)
    return seqs


def to_model(steps, idx):
    out = []
    for s in steps:
        op = s["op"]
        if op == "new_root":
            al = s["accept_language"]
            out.append({"op": "new_root", "init": idx.get(al, 0) if al is not None else 0})
        elif op == "sub":
            out.append({"op": "sub", "parent": s["parent"], "initial": None if s["initial"] is None else idx[s["initial"]],
                        "fallback": 0})
        elif op == "provide_root":
            al = s["accept_language"]
            out.append({"op": "provide_root", "init": idx.get(al, 0) if al is not None else 0})
        elif op == "provider":
            out.append({"op": "provider", "owner": s["owner"], "initial": None if s["initial"] is None else idx[s["initial"]],
                        "fallback": 0})
        elif op in ("set", "set_untracked"):
            out.append({"op": op, "view": s["view"], "locale": idx[s["locale"]]})
        elif op == "provide_again":
            out.append({"op": "use_ctx", "owner": s["owner"]})
        elif op in ("make_closure", "make_memo"):
            out.append({"op": op, "view": s["view"]})
        else:
            out.append(dict(s))
    return out


def impl_obs(step, o, levels, idx, mlevels=None):
    """normalise one observation of the harness into the model's vocabulary; returns (obs, error or None)"""
    op = step["op"]
    if op == "make_memo":
        mlevels.append((o["level"], step["kind"]))
        return {"memo": o["memo"]}, None
    if op == "read_memo":
        level, kind = mlevels[step["memo"]]
        text = o["text"]
        if kind == "t_plural":
            return {"plural0": text}, None
        if kind == "locale":
            if text not in idx:
                return {"text": text}, f"memo over get_locale() returned {text!r}"
            return {"locale": idx[text]}, None
        pre = PREFIX[level]
        if not text.startswith(pre) or text[len(pre):] not in idx:
            return {"text": text}, f"memo rendered {text!r}, not a {pre}<locale> text"
        return {"locale": idx[text[len(pre):]]}, None
    if op in ("provide_root", "provider"):
        return {"ctx": o["ctx"], "owner": o["owner"], "view": o["view"]}, None
    if op == "child_owner":
        return {"owner": o["owner"]}, None
    if op in ("use_ctx", "provide_again"):
        if o.get("not_found"):
            return {"not_found": True}, None
        return {"ctx": o["ctx"], "view": o["view"]}, None
    if op in ("new_root", "sub", "scope"):
        return {"view": o["view"]}, None
    if op in ("set", "set_untracked"):
        return None, None
    if op in ("get", "get_untracked"):
        return {"locale": idx[o["locale"]]}, None
    if op == "make_closure":
        levels.append((o["level"], step["kind"]))
        return {"closure": o["closure"]}, None
    if op == "call_closure":
        level, kind = levels[step["closure"]]
        pre = PREFIX[level]
        text = o["text"]
        if kind == "t_plural":
            return {"plural0": text}, None
        if not text.startswith(pre) or text[len(pre):] not in idx:
            return {"text": text}, f"closure rendered {text!r}, not a {pre}<locale> text"
        return {"locale": idx[text[len(pre):]]}, None
    raise HarnessError("unknown op " + op)


def nontrivial(steps):
    seen_set = False
    for s in steps:
        if s["op"] in ("set", "set_untracked"):
            seen_set = True
        elif seen_set and s["op"] in ("get", "get_untracked", "call_closure", "read_memo", "use_ctx", "provide_again"):
            return True
    return False


def evaluate(ctx, binr, names, idx, seqs, record=True):
    impl = run_lines_resilient(binr, [{"op": "ops", "steps": s} for s in seqs])
    lreqs, keep = [], []
    for s, r in zip(seqs, impl):
        if "panic" in r or "crash" in r or "bad_op" in r or "bad_line" in r:
            report_violation(ctx, "ops-panics", {"steps": s, "impl": r, "kind": "operation sequence panics",
                                                 "harness": "ctx_h ops"})
            continue
        lreqs.append({"op": "ctx.ops", "steps": to_model(s, idx)})
        keep.append((s, r))
    model = lean_driver(lreqs)
    mism = 0
    for (s, r), m in zip(keep, model):
        if m["model"] != m["spec"]:
            raise HarnessError("model violates its own proved specification: " + json.dumps(s))
        levels, mlevels = [], []
        spec_bad = model_bad = None
        for k, (st, o) in enumerate(zip(s, r["obs"])):
            io, err = impl_obs(st, o, levels, idx, mlevels)
            so, mo = m["spec"][k], m["model"][k]
            if isinstance(io, dict) and "plural0" in io:
                # `t_plural!` accessors show the plural category of 0 in the locale the spec / the model says is current
                so = {"plural0": CAT0[names[so["locale"]]]} if isinstance(so, dict) and "locale" in so else so
                mo = {"plural0": CAT0[names[mo["locale"]]]} if isinstance(mo, dict) and "locale" in mo else mo
            if err or io != so:
                spec_bad = (k, io, so, err)
                break
            if io != mo:
                model_bad = (k, io, mo)
                break
        if not spec_bad and not model_bad:
            fin = [idx[x] for x in r["final"]]
            if fin != m["final"]:
                model_bad = ("final", fin, m["final"])
        if record:
            ctx.seen(s, nontrivial=nontrivial(s))
            ctx.count("len<=%d" % (10 if len(s) <= 10 else 50 if len(s) <= 50 else 100 if len(s) <= 100 else 200 if len(s) <= 200 else 1000))
            for st in s:
                ctx.count("op=" + st["op"])
                if st["op"] == "make_closure":
                    ctx.count("closure_kind=" + st["kind"])
                if st["op"] == "make_memo":
                    ctx.count("memo_kind=" + st["kind"])
            ctx.count("contexts", m["contexts"])
            ctx.count("views", len(m["final"]))
        if spec_bad:
            k, io, so, err = spec_bad
            names_of = lambda ob: ob if not isinstance(ob, dict) or "locale" not in ob else {"locale": names[ob["locale"]]}
            report_violation(ctx, "ops:" + s[k]["op"], {
                "steps": s[:k + 1], "failing_step": k, "got": names_of(io), "expected_by_spec": names_of(so), "why": err,
                "harness": "ctx_h ops", "replay_cmd": "./check C16 --replay <this file>"})
        elif model_bad:
            mism += 1
            if not any(b["name"].startswith("R/ops") for b in ctx.broken):
                ctx.broken.append({"kind": "correspondence", "name": "R/ops:step", "detail": {"steps": s, "at": model_bad}})
    return mism


def run(ctx):
    lean_check(ctx, "I18nVerif.Theorems.C16", "C16_")
    binr = cargo_build(ctx, "ctx_h")
    if binr is None:
        finish_broken(ctx, "harness does not build; nothing could be run")
        return
    (loc,), _ = run_lines(binr, [{"op": "locales"}])
    names = [l["name"] for l in loc["locales"]]
    idx = {n: i for i, n in enumerate(names)}
    rng = ctx.rng
    seqs = corpus(names)
    nseq = ctx.budget(1500, 20000)
    for i in range(nseq):
        # a third short (dense interaction on few contexts), the rest up to 200 operations
        seqs.append(gen_sequence(rng, names, 40 if i % 3 == 0 else 200, tracked_only=(i % 4 == 1)))
    mism = 0
    chunk = 1000
    for a in range(0, len(seqs), chunk):
        mism += evaluate(ctx, binr, names, idx, seqs[a:a + chunk])
    ctx.sample({"steps": seqs[len(corpus(names))][:12]})
    ctx.extra["impl_vs_model_mismatches"] = mism
    ctx.extra["exhaustive"] = False
    ctx.extra["level_note"] = (
        "proof, thin: the C16 theorems (refinement of the cell machine to the history specification, isolation, scoped "
        "views share the cell) hold for every operation sequence, but the model is deliberately tiny (an I18nContext is a "
        "Copy handle on one RwSignal). Trusted: leptos' reactive runtime (RwSignal get/set/write_untracked atomicity, "
        "re-execution of t! closures placed in a view when the signal notifies — the harness re-invokes closures itself). "
        "The correspondence (real contexts, every observation of every step compared) carries most of the weight. "
        "Not executed: hydrate/csr builds, the RenderEffect that forwards a caller-wired initial-locale signal (the "
        "property's stated exception), cookies (disabled in these sequences; their interplay with creation is C15).")
    ctx.assumptions += [
        "leptos reactive runtime trusted (RwSignal atomic get/set; closures are re-invoked by the harness, not by a renderer)",
        "cookies disabled for the contexts of the sequences; sub-contexts created with constant (non-reactive) initial locale",
        "initial locale of new_root / provide_root taken from an exact-name Accept-Language header (resolution itself is property C15)",
        "'reactive accessor' = leptos' lazy Memo: cached value, invalidated by tracked sets only (RwSignal::set notifies even for an equal value), recomputed at the next read — modelled explicitly and compared on every read_memo",
        "which context use_i18n() returned is identified through the public API (distinguishable untracked write, read through one representative view per context, restore)",
        "providers are the real <I18nContextProvider>/<I18nSubContextProvider> components of the declare_locales! module, built with view! (not rendered to HTML); islands variants not built",
        "single-threaded deterministic executor for leptos' isomorphic effects in the harness",
    ]
    finish_broken(ctx, f"{len(seqs)} operation sequences, every observation compared with the specification")
    write_evidence(ctx, RULE)


def replay(ctx, payload):
    binr = cargo_build(ctx, "ctx_h")
    if binr is None:
        raise HarnessError("harness does not build")
    (loc,), _ = run_lines(binr, [{"op": "locales"}])
    names = [l["name"] for l in loc["locales"]]
    idx = {n: i for i, n in enumerate(names)}
    evaluate(ctx, binr, names, idx, [payload["steps"]], record=False)
    print(json.dumps({"steps": len(payload["steps"]), "violates": bool(ctx.violations)}))
