"""C16 — a context always shows the last locale set; sub-contexts are isolated.
Theorems: lean/I18nVerif/Theorems/C16.lean, C16Ticks.lean (ticks are invisible while no wire is due), C16Wired.lean.  Correspondence: harness ctx_h (`ops`: a
tree of real `I18nContext`s, scoped views through `scope_i18n!` / `I18nContext::scope`, `t!` / `t_string!` / `tu_string!` /
`t_display!` / `td_string!` closures re-invoked) vs the Lean cell machine `Context.run`; property oracle = the history
specification `Context.Spec.observations`, compared with the implementation's observation after every step.

Every sequence runs on TWO builds of the harness: `plain` (leptos `ssr`: `Effect` / `RenderEffect` are inert) and `effects`
(`--features effects` = reactive_graph's `effects`, own target dir `harness/target-effects`: effects run natively on the
harness' deterministic executor, as under `csr` / `hydrate` in the browser).  The step `tick` (= run the executor until idle;
the only moment spawned effect futures are polled: requests are sent with `drain_each: false`) is placed densely after
creations and sets and at random positions; model and specification treat it as the identity as long as no wire is due
(`C16_ticks_invisible`; with a written wire it is the moment of delivery, see below).  A
self-test (`effects_selftest`) makes sure effects really run in the effects build and really do not in the plain one.

Wired sub-contexts (Theorems/C16Wired.lean; the property's exception "unless the caller wired an initial-locale signal"):
a third of the random sequences also create sub-contexts whose initial locale is a caller-owned signal (`sub_wired`) and
write that signal (`wire_set`); they run on the effects build only (the forwarding `RenderEffect` is inert under plain
`ssr`; the plain build must answer `bad_op`).  For those a tick is not the identity: it delivers a changed wire.  Every
observation of a wired sub-context is judged by `WiredOracle`, a property oracle that does not use the Lean model (a
disagreement is a VIOLATION), and compared with the model (a disagreement with the model only is a broken correspondence)."""
import html as _html
from .common import *

RULE = ("every sequence is run on BOTH builds of the harness (plain `ssr`: effects inert; `effects`: Effect/RenderEffect run natively on "
        "the deterministic executor) with `tick` steps (= run the executor until idle; the executor runs at ticks only) inserted "
        "in one of four modes {hot: 3/5 after new_root/sub/provider/provide_root/provide_again/set/set_untracked and 1/12 elsewhere; "
        "random: 1/5 anywhere, sometimes doubled, sometimes first; each: after every step; none: only the explicit ones}, plus the "
        "composite patterns 'create a context; set it in the same turn (possibly through a fresh scoped view); tick; read' and "
        "'create a sub-context / sub-provider (mostly without initial locale); optionally set it; set the PARENT; tick; read child "
        "and parent', and a closing 'tick; get_untracked of every view' compared with the specification; "
        "random operation sequences (1..200 operations before ticks) over {make_memo(view, kind in locale/t_string/td_string/t_display/t_plural), "
        "read_memo(i), provide_root (the real <I18nContextProvider>), provide_again(owner) (a nested <I18nContextProvider>: must hand over the existing context), child_owner(owner), provider(owner, optional initial "
        "locale) (the real <I18nSubContextProvider>, children capture use_i18n() and their owner), use_ctx(owner), and the "
        "composite pattern 'set_locale_untracked(x); set_locale(x) through a view of the same context; read earlier memos'} "
        "in MIXED sequences with {new_root, sub(parent view or none, optional initial locale), "
        "scope(view), set(view, locale), set_untracked(view, locale), get(view), get_untracked(view), "
        "make_closure(view, kind in t/t_string/tu_string/t_display/td_string/t_plural), call_closure(i)} on a growing forest of "
        "contexts; a quarter of the sequences use tracked sets only and also derive `Memo`s from the contexts; plus hand-written sequences (deep sub-context chains, scope cycles root->sub->deep->root keys, closures "
        "created before many sets); after every step the implementation's observation is compared with the model's and the "
        "specification's, and at the end every view is read back; non-trivial = the sequence contains a set after which some "
        "view or closure of the same context is observed; distinct = distinct sequences; "
        "WIRED (every third random sequence + hand-written ones, effects build only): additionally {sub_wired(parent view or none, locale) = "
        "init_i18n_subcontext_with_options(Some(caller-owned RwSignal)), wire_set(wire, locale) = signal.set (2/3 followed by a tick)} and the "
        "composite patterns wire_same (wire_set with the value the wire already has; tick; read), wire_race (wire_set(x) and 1..2 "
        "set/set_untracked through any view of the same sub-context, in either order, in one turn; tick; read), wire_agree (optional earlier "
        "set+tick; then set/set_untracked(y) and wire_set(y) in either order, with or without a tick between; tick; read: must show y), "
        "wire_parent (set the parent of a wired sub-context; tick; read both) and ordinary sub-contexts created under wired ones; "
        "observations of wired sub-contexts are judged by the model-independent WiredOracle: observed in {locale of the most recent set* on it "
        "(else its creation value), value of its wire at the most recent tick (else at creation)} and equal to it when the two agree")

KINDS = ["t", "t_string", "tu_string", "t_display", "td_string", "t_plural", "t_format"]
PREFIX = {0: "hello_", 1: "inner_", 2: "leaf_"}


MEMO_KINDS = ["locale", "t_string", "td_string", "t_display", "t_plural", "t_format"]
# CLDR cardinal category of 0 (the count the harness gives to `t_plural!`): `one` in French, `other` in English and German
CAT0 = {"en": "other", "en-US": "other", "de": "other", "fr": "one", "fr-CA": "one"}
FMT0 = {}      # locale name -> what a `t_format!(ctx, 1234567.5, formatter: number)` accessor shows there (read from the harness: td_format_string!)
TABLES = {"plural0": CAT0, "fmt0": FMT0}


def gen_sequence(rng, names, maxlen, tracked_only=False, wired=False):
    """tracked_only: no `set_locale_untracked` in the sequence; then closures of kind "memo" are created as well (they
    are compared like plain closures, which is only right without untracked sets).  The explicit memo operations
    (`make_memo` / `read_memo`) are generated in every sequence: the model knows about laziness.
    wired: also wired sub-contexts (`sub_wired`), writes to their signals (`wire_set`) and the patterns around them."""
    n = rng.range(1, maxlen)
    steps = []
    nviews, nclosures, nmemos, nowners = 0, 0, 0, 0
    alias = []        # view -> representative view of the same context, as far as the generator knows
    wire_view, wire_val = [], []      # wire -> the view its sub-context was created as / the value its signal holds

    def any_set():
        return "set" if tracked_only or rng.chance(3, 5) else "set_untracked"

    def new_view(rep=None):
        nonlocal nviews
        alias.append(nviews if rep is None else alias[rep])
        nviews += 1

    def same_ctx_view(v):
        cands = [w for w in range(nviews) if alias[w] == alias[v]]
        return rng.pick(cands)

    while len(steps) < n:
        if nviews == 0:
            op = rng.weighted([(6, "new_root"), (4, "provide_root"), (1, "sub_orphan")])
        else:
            op = rng.weighted([(2, "new_root"), (2, "provide_root"), (6, "sub"), (1, "sub_orphan"), (9, "scope"), (16, "set"),
                               (0 if tracked_only else 10, "set_untracked"), (10, "get"), (6, "get_untracked"),
                               (7, "make_closure"), (12 if nclosures else 0, "call_closure"),
                               (8, "make_memo"), (16 if nmemos else 0, "read_memo"),
                               (0 if tracked_only or not nmemos else 8, "pattern_same_value"),
                               (3 if nowners else 0, "child_owner"), (7 if nowners else 0, "provider"),
                               (9 if nowners else 0, "use_ctx"), (4 if nowners else 0, "provide_again"),
                               (7, "create_set_tick"), (7, "parent_set_tick"),
                               (9 if wired else 0, "sub_wired"), (12 if wired and wire_view else 0, "wire_set"),
                               (5 if wired and wire_view else 0, "wire_same"), (8 if wired and wire_view else 0, "wire_race"),
                               (9 if wired and wire_view else 0, "wire_agree"), (4 if wired and wire_view else 0, "wire_parent")])
        if wired and nviews and not wire_view and rng.chance(1, 3):
            op = "sub_wired"
        if op == "sub_wired":
            x = rng.pick(names)
            steps.append({"op": "sub_wired", "parent": rng.below(nviews) if nviews and rng.chance(7, 8) else None, "locale": x})
            wire_view.append(nviews)
            wire_val.append(x)
            new_view()
            if rng.chance(1, 3):
                steps.append({"op": "scope", "view": nviews - 1})
                new_view(nviews - 1)
        elif op == "wire_set":
            w = rng.below(len(wire_view))
            x = rng.pick(names)
            steps.append({"op": "wire_set", "wire": w, "locale": x})
            wire_val[w] = x
            if rng.chance(2, 3):
                steps.append({"op": "tick"})
                if rng.chance(1, 2):
                    steps.append({"op": rng.pick(["get", "get_untracked"]), "view": same_ctx_view(wire_view[w])})
        elif op == "wire_same":
            # the caller writes the value the signal already holds: the listener memo does not change, nothing is delivered
            # (a locale set on the sub-context in between stays)
            w = rng.below(len(wire_view))
            if rng.chance(1, 2):
                steps.append({"op": any_set(), "view": same_ctx_view(wire_view[w]), "locale": rng.pick(names)})
            if rng.chance(1, 3):
                steps.append({"op": "tick"})
            steps.append({"op": "wire_set", "wire": w, "locale": wire_val[w]})
            steps.append({"op": "tick"})
            steps.append({"op": rng.pick(["get", "get_untracked"]), "view": same_ctx_view(wire_view[w])})
        elif op == "wire_race":
            # the signal is written and the sub-context is set in the same turn, in either order: the delivery (next tick) wins
            w = rng.below(len(wire_view))
            x = rng.pick(names)
            sets = [{"op": any_set(), "view": same_ctx_view(wire_view[w]), "locale": rng.pick(names)} for _ in range(rng.range(1, 2))]
            k = rng.below(len(sets) + 1)
            steps.extend(sets[:k])
            steps.append({"op": "wire_set", "wire": w, "locale": x})
            wire_val[w] = x
            steps.extend(sets[k:])
            if rng.chance(1, 3):
                steps.append({"op": "get", "view": same_ctx_view(wire_view[w])})
            steps.append({"op": "tick"})
            steps.append({"op": rng.pick(["get", "get_untracked"]), "view": same_ctx_view(wire_view[w])})
            if nclosures and rng.chance(1, 3):
                steps.append({"op": "call_closure", "closure": rng.below(nclosures)})
        elif op == "wire_agree":
            # the last set on the sub-context and the wire agree on y (in either order, in one turn or two): it must show y
            w = rng.below(len(wire_view))
            if rng.chance(2, 3):
                steps.append({"op": "set", "view": same_ctx_view(wire_view[w]), "locale": rng.pick(names)})
                steps.append({"op": "tick"})
            y = rng.pick(names)
            a = {"op": any_set(), "view": same_ctx_view(wire_view[w]), "locale": y}
            b = {"op": "wire_set", "wire": w, "locale": y}
            wire_val[w] = y
            first, second = (a, b) if rng.chance(1, 2) else (b, a)
            steps.append(first)
            if rng.chance(1, 3):
                steps.append({"op": "tick"})
            steps.append(second)
            steps.append({"op": "tick"})
            steps.append({"op": rng.pick(["get", "get_untracked"]), "view": same_ctx_view(wire_view[w])})
        elif op == "wire_parent":
            # neither the parent nor an ordinary sub-context below follows a wired sub-context, nor the other way round
            w = rng.below(len(wire_view))
            steps.append({"op": "sub", "parent": same_ctx_view(wire_view[w]), "initial": None})
            child = nviews
            new_view()
            steps.append({"op": "wire_set", "wire": w, "locale": rng.pick(names)})
            wire_val[w] = steps[-1]["locale"]
            if rng.chance(1, 2):
                steps.append({"op": any_set(), "view": child, "locale": rng.pick(names)})
            steps.append({"op": "tick"})
            steps.append({"op": "get", "view": child})
            steps.append({"op": "get", "view": same_ctx_view(wire_view[w])})
        elif op == "new_root":
            steps.append({"op": "new_root", "accept_language": rng.pick(names) if rng.chance(4, 5) else None})
            new_view()
        elif op == "provide_root":
            steps.append({"op": "provide_root", "accept_language": rng.pick(names) if rng.chance(4, 5) else None})
            new_view()
            nowners += 1
        elif op == "sub":
            steps.append({"op": "sub", "parent": rng.below(nviews), "initial": rng.pick(names) if rng.chance(2, 5) else None})
            new_view()
        elif op == "sub_orphan":
            steps.append({"op": "sub", "parent": None, "initial": rng.pick(names) if rng.chance(1, 2) else None})
            new_view()
        elif op == "scope":
            v = rng.below(nviews)
            steps.append({"op": "scope", "view": v})
            new_view(v)
        elif op in ("set", "set_untracked"):
            steps.append({"op": op, "view": rng.below(nviews), "locale": rng.pick(names)})
        elif op in ("get", "get_untracked"):
            steps.append({"op": op, "view": rng.below(nviews)})
        elif op == "make_closure":
            kind = "memo" if tracked_only and rng.chance(1, 2) else rng.pick(KINDS)
            steps.append({"op": "make_closure", "view": rng.below(nviews), "kind": kind})
            nclosures += 1
        elif op == "call_closure":
            steps.append({"op": "call_closure", "closure": rng.below(nclosures)})
        elif op == "make_memo":
            steps.append({"op": "make_memo", "view": rng.below(nviews), "kind": rng.pick(MEMO_KINDS)})
            nmemos += 1
        elif op == "read_memo":
            steps.append({"op": "read_memo", "memo": rng.below(nmemos)})
        elif op == "pattern_same_value":
            # untracked set to x, then a tracked set to the same x through a view of the same context (often a scoped
            # one), then read memos created earlier
            v = rng.below(nviews)
            x = rng.pick(names)
            steps.append({"op": "set_untracked", "view": v, "locale": x})
            if rng.chance(1, 3):
                steps.append({"op": "read_memo", "memo": rng.below(nmemos)})
            steps.append({"op": "set", "view": same_ctx_view(v) if rng.chance(5, 6) else rng.below(nviews), "locale": x})
            for m in rng.sample(list(range(nmemos)), min(nmemos, rng.range(1, 5))):
                steps.append({"op": "read_memo", "memo": m})
        elif op == "child_owner":
            steps.append({"op": "child_owner", "owner": rng.below(nowners)})
            nowners += 1
        elif op == "provider":
            # siblings: prefer owners that already have providers below them
            steps.append({"op": "provider", "owner": rng.below(nowners), "initial": rng.pick(names) if rng.chance(1, 3) else None})
            new_view()
            nowners += 1
        elif op == "use_ctx":
            # every owner descends from a provide_root, so a context is always found
            steps.append({"op": "use_ctx", "owner": rng.below(nowners)})
            new_view()
        elif op == "provide_again":
            # a nested `<I18nContextProvider>`: its children get the context already provided above (the model's `use_ctx`)
            steps.append({"op": "provide_again", "owner": rng.below(nowners)})
            new_view()
        elif op == "create_set_tick":
            # a context created and set in the same turn of the event loop (what a component does when it derives the
            # locale from the URL while it is being rendered), then the executor runs, then reads: the set must win
            how = rng.weighted([(3, "new_root"), (2, "provide_root"), (3, "sub"), (3 if nowners else 0, "provider")])
            if how in ("new_root", "provide_root"):
                steps.append({"op": how, "accept_language": rng.pick(names) if rng.chance(1, 2) else None})
                nowners += how == "provide_root"
            elif how == "sub":
                steps.append({"op": "sub", "parent": rng.below(nviews), "initial": rng.pick(names) if rng.chance(1, 3) else None})
            else:
                steps.append({"op": "provider", "owner": rng.below(nowners), "initial": rng.pick(names) if rng.chance(1, 3) else None})
                nowners += 1
            nv = nviews
            new_view()
            via = nv
            if rng.chance(1, 3):
                steps.append({"op": "scope", "view": nv})
                via = nviews
                new_view(nv)
            if rng.chance(1, 3):
                steps.append({"op": "make_closure", "view": via, "kind": rng.pick(KINDS)})
                nclosures += 1
            for _ in range(rng.range(1, 2)):
                steps.append({"op": "set" if tracked_only or rng.chance(2, 3) else "set_untracked", "view": rng.pick([nv, via]),
                              "locale": rng.pick(names)})
            steps.append({"op": "tick"})
            steps.append({"op": rng.pick(["get", "get_untracked"]), "view": rng.pick([nv, via])})
            if nclosures and rng.chance(1, 2):
                steps.append({"op": "call_closure", "closure": nclosures - 1})
        elif op == "parent_set_tick":
            # a sub-context (plain or through the real provider component), then the PARENT is set, then the executor
            # runs: the sub-context must not follow (and must keep its own explicit set, if any)
            initial = rng.pick(names) if rng.chance(1, 4) else None
            if nowners and rng.chance(1, 2):
                o = rng.below(nowners)
                steps.append({"op": "use_ctx", "owner": o})          # a view of the parent context
                pv = nviews
                new_view()
                steps.append({"op": "provider", "owner": o, "initial": initial})
                nowners += 1
            else:
                pv = rng.below(nviews)
                steps.append({"op": "sub", "parent": pv, "initial": initial})
            child = nviews
            new_view()
            if rng.chance(1, 4):
                steps.append({"op": "tick"})
            if rng.chance(1, 2):
                steps.append({"op": "set" if tracked_only or rng.chance(2, 3) else "set_untracked", "view": child, "locale": rng.pick(names)})
                if rng.chance(1, 3):
                    steps.append({"op": "tick"})
            for _ in range(rng.range(1, 2)):
                steps.append({"op": "set", "view": same_ctx_view(pv), "locale": rng.pick(names)})
            steps.append({"op": "tick"})
            steps.append({"op": rng.pick(["get", "get_untracked"]), "view": child})
            steps.append({"op": "get", "view": pv})
    return steps


TICK = {"op": "tick"}
HOT = {"new_root", "sub", "provider", "provide_root", "provide_again", "set", "set_untracked", "sub_wired", "wire_set"}
TICK_MODES = ["hot", "hot", "hot", "random", "random", "each", "none", "none"]
VIEW_MAKERS = {"new_root", "sub", "scope", "provide_root", "provider", "use_ctx", "provide_again", "sub_wired"}
WIRED_OPS = {"sub_wired", "wire_set"}


def has_wired(steps):
    return any(st["op"] in WIRED_OPS for st in steps)


def add_ticks(rng, steps, mode):
    """insert `tick` steps (the executor runs at ticks only): hot = densely right after creations and sets (where an effect
    scheduled by the creation / the set would run), random = anywhere, each = after every step (every step in its own turn
    of the event loop), none = only the ticks the composite patterns already contain"""
    out = []
    if mode == "random" and rng.chance(1, 4):
        out.append(dict(TICK))
    for st in steps:
        out.append(st)
        if st["op"] == "tick":
            continue
        if mode == "each":
            out.append(dict(TICK))
        elif mode == "hot":
            if rng.chance(3, 5) if st["op"] in HOT else rng.chance(1, 12):
                out.append(dict(TICK))
                if rng.chance(1, 6):
                    out.append(dict(TICK))
        elif mode == "random":
            if rng.chance(1, 5):
                out.append(dict(TICK))
                if rng.chance(1, 4):
                    out.append(dict(TICK))
    return out


def close_sequence(steps):
    """a last turn of the event loop, then every view is read: whatever an effect did late is observed (against the spec)"""
    nviews = sum(1 for st in steps if st["op"] in VIEW_MAKERS)
    return steps + [dict(TICK)] + [{"op": "get_untracked", "view": v} for v in range(nviews)]


def corpus(names):
    seqs = []
    # deep chain of sub-contexts, each created from the previous one, then sets at every level, reads everywhere
    s = [{"op": "new_root", "accept_language": "fr"}]
    for d in range(12):
        s.append({"op": "sub", "parent": d, "initial": None})
    for d in range(13):
        s.append({"op": "make_closure", "view": d, "kind": KINDS[d % len(KINDS)]})
    for d in range(13):
        s.append({"op": "set" if d % 2 else "set_untracked", "view": d, "locale": names[d % len(names)]})
        for e in range(13):
            s.append({"op": "get", "view": e})
            s.append({"op": "call_closure", "closure": e})
    seqs.append(s)
    # scope cycle: root keys -> sub -> deep -> root keys -> ...; set through each, observe through all
    s = [{"op": "new_root", "accept_language": None}]
    for d in range(9):
        s.append({"op": "scope", "view": d})
    for d in range(10):
        s.append({"op": "make_closure", "view": d, "kind": KINDS[(d + 2) % len(KINDS)]})
    for d in range(10):
        s.append({"op": "set_untracked" if d % 3 == 0 else "set", "view": d, "locale": names[(d + 1) % len(names)]})
        for e in range(10):
            s.append({"op": "get_untracked", "view": e})
            s.append({"op": "call_closure", "closure": e})
    seqs.append(s)
    # sub-context from a scoped view, with and without initial locale; parent and child set alternately
    s = [{"op": "new_root", "accept_language": "de"}, {"op": "scope", "view": 0}, {"op": "scope", "view": 1},
         {"op": "sub", "parent": 2, "initial": None}, {"op": "sub", "parent": 1, "initial": "fr-CA"},
         {"op": "scope", "view": 3}, {"op": "make_closure", "view": 0, "kind": "t"},
         {"op": "make_closure", "view": 5, "kind": "t"}, {"op": "make_closure", "view": 4, "kind": "td_string"}]
    for k in range(8):
        s.append({"op": "set", "view": [0, 3, 4, 2, 5][k % 5], "locale": names[k % len(names)]})
        for v in range(6):
            s.append({"op": "get", "view": v})
        for c in range(3):
            s.append({"op": "call_closure", "closure": c})
    seqs.append(s)
    # tracked sets only: memos derived from every view before the sets must follow them
    s = [{"op": "new_root", "accept_language": "fr"}, {"op": "scope", "view": 0}, {"op": "scope", "view": 1},
         {"op": "sub", "parent": 1, "initial": None}, {"op": "scope", "view": 3}]
    for v in range(5):
        s.append({"op": "make_closure", "view": v, "kind": "memo"})
    for c in range(5):
        s.append({"op": "call_closure", "closure": c})
    for k in range(10):
        s.append({"op": "set", "view": (k * 3) % 5, "locale": names[(k + 1) % len(names)]})
        for c in range(5):
            s.append({"op": "call_closure", "closure": c})
    seqs.append(s)
    # MIXED: memos of every kind on a context, its scoped views and a sub-context; for each locale x:
    # set_locale_untracked(x), reads (stale by design), set_locale(x) — same value — through another view, reads (fresh)
    s = [{"op": "new_root", "accept_language": "fr"}, {"op": "scope", "view": 0}, {"op": "scope", "view": 1},
         {"op": "sub", "parent": 2, "initial": None}, {"op": "scope", "view": 3}]
    nm = 0
    for v in range(5):
        for kind in MEMO_KINDS:
            s.append({"op": "make_memo", "view": v, "kind": kind})
            nm += 1
    for m in range(nm):
        s.append({"op": "read_memo", "memo": m})
    for k, x in enumerate(names + names[:2]):
        a, b = [(0, 2), (1, 0), (2, 1), (3, 4), (4, 3), (0, 0), (4, 4)][k]
        s.append({"op": "set_untracked", "view": a, "locale": x})
        for m in range(0, nm, 2):
            s.append({"op": "read_memo", "memo": m})
        s.append({"op": "set", "view": b, "locale": x})
        for m in range(nm):
            s.append({"op": "read_memo", "memo": m})
        s.append({"op": "make_memo", "view": a, "kind": MEMO_KINDS[k % 3]})
        nm += 1
        s.append({"op": "read_memo", "memo": nm - 1})
    seqs.append(s)
    # never-read memo, then untracked + tracked same value; memo on a scoped view only
    s = [{"op": "new_root", "accept_language": "en-US"}, {"op": "scope", "view": 0}, {"op": "make_memo", "view": 1, "kind": "t_string"},
         {"op": "make_memo", "view": 0, "kind": "locale"}, {"op": "read_memo", "memo": 1},
         {"op": "set_untracked", "view": 1, "locale": "de"}, {"op": "set", "view": 1, "locale": "de"},
         {"op": "read_memo", "memo": 0}, {"op": "read_memo", "memo": 1},
         {"op": "set_untracked", "view": 0, "locale": "fr"}, {"op": "read_memo", "memo": 0}, {"op": "set", "view": 0, "locale": "fr"},
         {"op": "read_memo", "memo": 0}, {"op": "read_memo", "memo": 1}]
    seqs.append(s)
    # providers: root provided in owner 0; sibling providers with / without initial locale; use_i18n() in the parent
    # owner after each provider returned; set through the context found in the parent owner; nested providers
    s = [{"op": "provide_root", "accept_language": "fr"},                 # view 0, owner 0, ctx 0
         {"op": "provider", "owner": 0, "initial": "de"},                 # view 1, owner 1, ctx 1
         {"op": "use_ctx", "owner": 0},                                   # view 2 -> ctx 0
         {"op": "provider", "owner": 0, "initial": None},                 # view 3, owner 2, ctx 2 (starts fr, not de)
         {"op": "get", "view": 3}, {"op": "use_ctx", "owner": 0},         # view 4 -> ctx 0
         {"op": "set", "view": 4, "locale": "en-US"},                     # parent only
         {"op": "get", "view": 0}, {"op": "get", "view": 1}, {"op": "get", "view": 3},
         {"op": "provider", "owner": 0, "initial": None},                 # view 5, owner 3, ctx 3 (starts en-US)
         {"op": "get", "view": 5},
         {"op": "set", "view": 1, "locale": "fr-CA"}, {"op": "set_untracked", "view": 3, "locale": "de"},
         {"op": "provider", "owner": 0, "initial": None},                 # view 6, owner 4, ctx 4 (still en-US)
         {"op": "get", "view": 6}, {"op": "use_ctx", "owner": 1}, {"op": "use_ctx", "owner": 2},   # views 7 -> ctx1, 8 -> ctx2
         {"op": "provider", "owner": 1, "initial": None},                 # nested under the first sibling: view 9, owner 5, starts fr-CA
         {"op": "get", "view": 9}, {"op": "use_ctx", "owner": 1}, {"op": "use_ctx", "owner": 0},   # views 10 -> ctx1, 11 -> ctx0
         {"op": "child_owner", "owner": 5}, {"op": "use_ctx", "owner": 6},                         # owner 6; view 12 -> ctx 5
         {"op": "provider", "owner": 6, "initial": "en"}, {"op": "use_ctx", "owner": 6}, {"op": "use_ctx", "owner": 5},
         {"op": "set", "view": 12, "locale": "de"}, {"op": "get", "view": 9}, {"op": "get", "view": 1}, {"op": "get", "view": 0}]
    for v in range(16):
        s.append({"op": "get_untracked", "view": v})
    seqs.append(s)
    # two provided roots side by side, providers under each, memos on the contexts found through use_i18n()
    s = [{"op": "provide_root", "accept_language": "de"}, {"op": "provide_root", "accept_language": None},
         {"op": "provider", "owner": 1, "initial": None}, {"op": "provider", "owner": 0, "initial": None},
         {"op": "use_ctx", "owner": 0}, {"op": "use_ctx", "owner": 1}, {"op": "use_ctx", "owner": 2}, {"op": "use_ctx", "owner": 3},
         {"op": "make_memo", "view": 4, "kind": "locale"}, {"op": "make_memo", "view": 6, "kind": "t_string"},
         {"op": "read_memo", "memo": 0}, {"op": "read_memo", "memo": 1},
         {"op": "set_untracked", "view": 0, "locale": "fr"}, {"op": "set", "view": 4, "locale": "fr"},
         {"op": "read_memo", "memo": 0}, {"op": "read_memo", "memo": 1},
         {"op": "set", "view": 2, "locale": "fr-CA"}, {"op": "read_memo", "memo": 1}, {"op": "read_memo", "memo": 0},
         {"op": "provider", "owner": 1, "initial": None}, {"op": "get", "view": 8}]
    seqs.append(s)
    # sub-contexts without any parent context, several roots
    s = [{"op": "sub", "parent": None, "initial": None}, {"op": "sub", "parent": None, "initial": "fr"},
         {"op": "new_root", "accept_language": "en-US"}, {"op": "new_root", "accept_language": "xx"},
         {"op": "sub", "parent": 3, "initial": None}]
    for v in range(5):
        s.append({"op": "get", "view": v})
    s += [{"op": "set", "view": 3, "locale": "de"}, {"op": "get", "view": 4}, {"op": "get", "view": 3}]
    seqs.append(s)
    return seqs


def tick_corpus(names):
    """hand-written sequences around the turns of the event loop (the explicit ticks stay in every tick mode)"""
    T = {"op": "tick"}
    seqs = []
    # a context set in the turn it was created in, then the executor runs; then more set / tick rounds through scoped views
    s = [{"op": "new_root", "accept_language": None}, {"op": "set", "view": 0, "locale": "fr"}, T, {"op": "get", "view": 0},
         {"op": "scope", "view": 0}, {"op": "make_closure", "view": 1, "kind": "t"}, {"op": "make_closure", "view": 0, "kind": "t_string"},
         {"op": "call_closure", "closure": 0}, {"op": "call_closure", "closure": 1},
         {"op": "set", "view": 1, "locale": "de"}, T, {"op": "get", "view": 0}, {"op": "call_closure", "closure": 0},
         {"op": "set_untracked", "view": 0, "locale": "en-US"}, T, T, {"op": "get_untracked", "view": 1}, {"op": "call_closure", "closure": 1},
         {"op": "new_root", "accept_language": "de"}, {"op": "scope", "view": 2}, {"op": "set_untracked", "view": 3, "locale": "fr-CA"},
         {"op": "make_memo", "view": 2, "kind": "locale"}, T, {"op": "read_memo", "memo": 0}, {"op": "get", "view": 2}]
    seqs.append(s)
    # the same for every way of creating a context: created, set at once, tick, read
    s = [{"op": "provide_root", "accept_language": "fr"}, {"op": "set", "view": 0, "locale": "de"}, T, {"op": "get", "view": 0},
         {"op": "provider", "owner": 0, "initial": None}, {"op": "set", "view": 1, "locale": "en-US"}, T, {"op": "get", "view": 1}, {"op": "get", "view": 0},
         {"op": "provider", "owner": 0, "initial": "fr-CA"}, {"op": "set_untracked", "view": 2, "locale": "fr"}, T, {"op": "get", "view": 2},
         {"op": "sub", "parent": 0, "initial": None}, {"op": "set", "view": 3, "locale": "fr-CA"}, T, {"op": "get", "view": 3},
         {"op": "sub", "parent": None, "initial": None}, {"op": "set", "view": 4, "locale": "de"}, T, {"op": "get", "view": 4},
         {"op": "sub", "parent": 3, "initial": "en"}, {"op": "scope", "view": 5}, {"op": "set", "view": 6, "locale": "fr"}, T, {"op": "get", "view": 5}]
    seqs.append(s)
    # a sub-context does not follow its parent: parent set in the turn the sub-context was created in / a later turn,
    # the sub-context's own explicit set survives a later parent set, siblings stay apart
    s = [{"op": "new_root", "accept_language": "fr"}, T, {"op": "sub", "parent": 0, "initial": None}, {"op": "set", "view": 0, "locale": "de"}, T,
         {"op": "get", "view": 1}, {"op": "get", "view": 0},
         {"op": "set", "view": 1, "locale": "en-US"}, T, {"op": "set", "view": 0, "locale": "fr-CA"}, T, {"op": "get", "view": 1}, {"op": "get", "view": 0},
         {"op": "sub", "parent": 0, "initial": None}, T, {"op": "set", "view": 0, "locale": "en"}, T, {"op": "get", "view": 2}, {"op": "get", "view": 1},
         {"op": "sub", "parent": 1, "initial": None}, {"op": "set", "view": 1, "locale": "de"}, {"op": "set", "view": 0, "locale": "fr"}, T,
         {"op": "get", "view": 3}, {"op": "get", "view": 2}, {"op": "get", "view": 1}, {"op": "get", "view": 0}]
    seqs.append(s)
    # the same through the real components: provider under a provided root, parent found with use_i18n() and set
    s = [{"op": "provide_root", "accept_language": "de"}, {"op": "provider", "owner": 0, "initial": None}, {"op": "use_ctx", "owner": 0},
         {"op": "set", "view": 2, "locale": "fr"}, T, {"op": "get", "view": 1}, {"op": "get", "view": 0},
         {"op": "make_memo", "view": 1, "kind": "t_string"}, {"op": "read_memo", "memo": 0},
         {"op": "set", "view": 0, "locale": "en-US"}, T, {"op": "read_memo", "memo": 0}, {"op": "get", "view": 1},
         {"op": "provider", "owner": 1, "initial": None}, {"op": "set", "view": 1, "locale": "fr-CA"}, {"op": "set", "view": 0, "locale": "en"}, T,
         {"op": "get", "view": 3}, {"op": "get", "view": 1}, {"op": "use_ctx", "owner": 2}, {"op": "get", "view": 4},
         {"op": "set", "view": 3, "locale": "de"}, T, {"op": "set", "view": 1, "locale": "fr"}, T, {"op": "get", "view": 4}, {"op": "read_memo", "memo": 0}]
    seqs.append(s)
    return seqs


def wired_corpus(names):
    """hand-written sequences around wired sub-contexts (effects build only; the explicit ticks stay in every tick mode)"""
    T = {"op": "tick"}
    G = lambda v: {"op": "get", "view": v}
    W = lambda w, x: {"op": "wire_set", "wire": w, "locale": x}
    seqs = []
    # creation value = the wire's, not the parent's; delivery at the tick only; a written wire with the value the listener
    # last saw delivers nothing (the set in between stays); wire and set in one turn: the delivery wins; parent never matters
    s = [{"op": "new_root", "accept_language": "fr"}, {"op": "sub_wired", "parent": 0, "locale": "de"}, G(1), G(0), T, G(1),
         W(0, "en-US"), G(1), T, G(1), G(0), {"op": "set", "view": 1, "locale": "fr-CA"}, T, G(1), W(0, "en-US"), T, G(1),
         W(0, "de"), {"op": "set", "view": 1, "locale": "fr"}, G(1), T, G(1), {"op": "set", "view": 0, "locale": "en"}, T, G(1), G(0),
         W(0, "fr"), W(0, "de"), T, G(1), {"op": "set_untracked", "view": 1, "locale": "fr"}, W(0, "fr"), T, G(1), W(0, "de"), T, G(1)]
    seqs.append(s)
    # scoped views, closures of every kind and memos of a wired sub-context follow a delivery; an ordinary sub-context below
    # it and a wired one below that; siblings wired to different signals
    s = [{"op": "new_root", "accept_language": "en-US"}, {"op": "sub_wired", "parent": 0, "locale": "fr"}, {"op": "scope", "view": 1},
         {"op": "scope", "view": 2}, {"op": "scope", "view": 3}]
    for k, kind in enumerate(KINDS):
        s.append({"op": "make_closure", "view": 1 + k % 4, "kind": kind})
    for k, kind in enumerate(MEMO_KINDS):
        s.append({"op": "make_memo", "view": 1 + (k + 1) % 4, "kind": kind})
    reads = [{"op": "call_closure", "closure": c} for c in range(len(KINDS))] + [{"op": "read_memo", "memo": m} for m in range(len(MEMO_KINDS))]
    s += reads + [W(0, "de"), T] + reads + [{"op": "set_untracked", "view": 3, "locale": "en"}] + reads + [W(0, "fr-CA"), T] + reads
    s += [{"op": "sub", "parent": 2, "initial": None}, {"op": "sub_wired", "parent": 5, "locale": "de"}, {"op": "sub_wired", "parent": 0, "locale": "en"},
          G(5), G(6), G(7), W(1, "fr"), W(2, "fr-CA"), W(0, "en-US"), {"op": "set", "view": 5, "locale": "de"}, T, G(1), G(5), G(6), G(7), G(0)]
    s += reads
    seqs.append(s)
    # the last set and the wire agree: set(y) / wire_set(y) in both orders, in one turn and in two, after an earlier set + tick
    s = [{"op": "sub_wired", "parent": None, "locale": "de"}, {"op": "scope", "view": 0}, T]
    for k, (a, y) in enumerate([("en", "fr"), ("fr-CA", "en-US"), ("de", "fr"), ("en", "de"), ("fr", "en")]):
        s += [{"op": "set", "view": k % 2, "locale": a}, T]
        st = {"op": "set_untracked" if k % 2 else "set", "view": (k + 1) % 2, "locale": y}
        s += ([st, W(0, y)] if k % 3 == 0 else [W(0, y), st] if k % 3 == 1 else [st, T, W(0, y)]) + [T, G(0), G(1)]
    seqs.append(s)
    # several wires written in one turn; a wire written twice in one turn (only the last value arrives; back to the old
    # value: nothing arrives); deliveries into a chain of wired sub-contexts do not propagate downwards
    s = [{"op": "provide_root", "accept_language": "fr"}, {"op": "sub_wired", "parent": 0, "locale": "en"}, {"op": "sub_wired", "parent": 1, "locale": "de"},
         {"op": "sub_wired", "parent": 2, "locale": "fr-CA"}, T, W(0, "fr"), W(1, "fr"), W(2, "fr"), G(1), G(2), G(3), T, G(1), G(2), G(3),
         W(0, "de"), W(0, "fr"), {"op": "set", "view": 1, "locale": "en-US"}, T, G(1), W(1, "en"), W(1, "de"), T, G(2), W(1, "en"), T, G(2), G(3), G(0),
         {"op": "use_ctx", "owner": 0}, {"op": "set", "view": 4, "locale": "de"}, T, G(1), G(2), G(3), G(0)]
    seqs.append(s)
    return seqs


def to_model(steps, idx):
    out = []
    for s in steps:
        op = s["op"]
        if op == "new_root":
            al = s["accept_language"]
            out.append({"op": "new_root", "init": idx.get(al, 0) if al is not None else 0})
        elif op == "sub":
            out.append({"op": "sub", "parent": s["parent"], "initial": None if s["initial"] is None else idx[s["initial"]],
                        "fallback": 0})
        elif op == "provide_root":
            al = s["accept_language"]
            out.append({"op": "provide_root", "init": idx.get(al, 0) if al is not None else 0})
        elif op == "provider":
            out.append({"op": "provider", "owner": s["owner"], "initial": None if s["initial"] is None else idx[s["initial"]],
                        "fallback": 0})
        elif op in ("set", "set_untracked"):
            out.append({"op": op, "view": s["view"], "locale": idx[s["locale"]]})
        elif op == "provide_again":
            out.append({"op": "use_ctx", "owner": s["owner"]})
        elif op in ("make_closure", "make_memo"):
            out.append({"op": op, "view": s["view"]})
        elif op == "sub_wired":
            out.append({"op": "sub_wired", "parent": s["parent"], "locale": idx[s["locale"]]})
        elif op == "wire_set":
            out.append({"op": "wire_set", "wire": s["wire"], "locale": idx[s["locale"]]})
        else:
            out.append(dict(s))
    # the harness runs the executor once more before its own final read-back: the model's final state is taken after a tick
    out.append({"op": "tick"})
    return out


def impl_obs(step, o, levels, idx, mlevels=None):
    """normalise one observation of the harness into the model's vocabulary; returns (obs, error or None)"""
    op = step["op"]
    if op == "tick":
        if not (isinstance(o, dict) and o.get("tick") is True):
            return {"text": o}, f"tick answered {o!r}"
        return None, None
    if op == "make_memo":
        mlevels.append((o["level"], step["kind"]))
        return {"memo": o["memo"]}, None
    if op == "read_memo":
        level, kind = mlevels[step["memo"]]
        text = o["text"]
        if kind == "t_plural":
            return {"plural0": text}, None
        if kind == "t_format":
            return {"fmt0": _html.unescape(text)}, None
        if kind == "locale":
            if text not in idx:
                return {"text": text}, f"memo over get_locale() returned {text!r}"
            return {"locale": idx[text]}, None
        pre = PREFIX[level]
        if not text.startswith(pre) or text[len(pre):] not in idx:
            return {"text": text}, f"memo rendered {text!r}, not a {pre}<locale> text"
        return {"locale": idx[text[len(pre):]]}, None
    if op in ("provide_root", "provider"):
        return {"ctx": o["ctx"], "owner": o["owner"], "view": o["view"]}, None
    if op == "child_owner":
        return {"owner": o["owner"]}, None
    if op in ("use_ctx", "provide_again"):
        if o.get("not_found"):
            return {"not_found": True}, None
        return {"ctx": o["ctx"], "view": o["view"]}, None
    if op in ("new_root", "sub", "scope"):
        return {"view": o["view"]}, None
    if op == "sub_wired":
        return {"view": o["view"], "wire": o["wire"]}, None
    if op in ("set", "set_untracked", "wire_set"):
        return None, None
    if op in ("get", "get_untracked"):
        return {"locale": idx[o["locale"]]}, None
    if op == "make_closure":
        levels.append((o["level"], step["kind"]))
        return {"closure": o["closure"]}, None
    if op == "call_closure":
        level, kind = levels[step["closure"]]
        pre = PREFIX[level]
        text = o["text"]
        if kind == "t_plural":
            return {"plural0": text}, None
        if kind == "t_format":
            return {"fmt0": _html.unescape(text)}, None
        if not text.startswith(pre) or text[len(pre):] not in idx:
            return {"text": text}, f"closure rendered {text!r}, not a {pre}<locale> text"
        return {"locale": idx[text[len(pre):]]}, None
    raise HarnessError("unknown op " + op)


def nontrivial(steps):
    seen_set = False
    for s in steps:
        if s["op"] in ("set", "set_untracked"):
            seen_set = True
        elif seen_set and s["op"] in ("get", "get_untracked", "call_closure", "read_memo", "use_ctx", "provide_again"):
            return True
    return False


BUILDS = [("plain", None, None), ("effects", ["effects", "cookie"], "effects")]


class WiredOracle:
    """The property, for wired sub-contexts, stated without the Lean model.  It follows the steps of a sequence and keeps, for
    every wired sub-context: S = the locale of the most recent `set_locale` / `set_locale_untracked` through any view of it (at
    first: the locale the wire held when the sub-context was created) and D = the value its wire held at the most recent tick
    (at first: the same creation value) — a written signal reaches nobody before the executor runs.  Whatever observes the
    sub-context (`get_locale`, `get_locale_untracked`, a `t!`-family closure, through the view it was created as or any scoped
    view) must see S or D, and exactly that locale when S = D.
    Everything else about wired sub-contexts (WHICH of the two, memo reads) and everything that inherits from them (ordinary
    sub-contexts created below a wired one: `tainted`) is compared with the model only."""
    TAINTED = "tainted"

    def __init__(self, idx):
        self.idx = idx
        self.vkind = []      # view -> None (ordinary context) | wire id | TAINTED
        self.cview = []      # closure -> view
        self.mview = []      # memo -> view
        self.S, self.D, self.W = [], [], []

    def step(self, st):
        """advance over one step; returns what the step observes: None (nothing / an ordinary context: the specification
        judges), ("wired", S, D) (this oracle judges), ("model",) (only the model is consulted)"""
        op = st["op"]
        if op == "sub_wired":
            l = self.idx[st["locale"]]
            self.vkind.append(len(self.S))
            self.S.append(l); self.D.append(l); self.W.append(l)
        elif op == "sub":
            pk = None if st["parent"] is None else self.vkind[st["parent"]]
            self.vkind.append(self.TAINTED if pk is not None and st["initial"] is None else None)
        elif op == "scope":
            self.vkind.append(self.vkind[st["view"]])
        elif op in VIEW_MAKERS:
            self.vkind.append(None)       # roots and everything found through the owner tree: never below a wired sub-context
        elif op == "wire_set":
            self.W[st["wire"]] = self.idx[st["locale"]]
        elif op == "tick":
            self.D = list(self.W)
        elif op in ("set", "set_untracked"):
            k = self.vkind[st["view"]]
            if isinstance(k, int):
                self.S[k] = self.idx[st["locale"]]
        elif op == "make_closure":
            self.cview.append(st["view"])
        elif op == "make_memo":
            self.mview.append(st["view"])
        elif op in ("get", "get_untracked", "call_closure", "read_memo"):
            v = st["view"] if op in ("get", "get_untracked") else self.cview[st["closure"]] if op == "call_closure" else self.mview[st["memo"]]
            k = self.vkind[v]
            if k is None:
                return None
            if k == self.TAINTED or op == "read_memo":
                return ("model",)
            return ("wired", self.S[k], self.D[k])
        return None


def judge(s, r, m, names, idx):
    """one sequence on one build: (spec_bad, model_bad); spec_bad = (step, impl obs, spec obs, why)"""
    levels, mlevels = [], []
    spec_bad = model_bad = None
    if len(r["obs"]) != len(s):
        raise HarnessError("harness answered %d observations for %d steps" % (len(r["obs"]), len(s)))
    oracle = WiredOracle(idx)
    for k, (st, o) in enumerate(zip(s, r["obs"])):
        io, err = impl_obs(st, o, levels, idx, mlevels)
        so, mo = m["spec"][k], m["model"][k]
        tk = next((t for t in TABLES if isinstance(io, dict) and t in io), None)
        if tk:
            # `t_plural!` / `t_format!` accessors show the plural category of 0 / the formatted number in the locale the spec / the model says is current
            so = {tk: TABLES[tk][names[so["locale"]]]} if isinstance(so, dict) and "locale" in so else so
            mo = {tk: TABLES[tk][names[mo["locale"]]]} if isinstance(mo, dict) and "locale" in mo else mo
        w = oracle.step(st)
        if w is not None and not err:
            if w[0] == "wired":
                allowed = sorted({w[1], w[2]})
                if tk:
                    ok = io[tk] in {TABLES[tk][names[l]] for l in allowed}
                else:
                    ok = io.get("locale") in allowed
                if not ok:
                    why = ("wired sub-context: the most recent set on it and the value its wire held at the most recent tick are both "
                           if len(allowed) == 1 else "wired sub-context: neither the most recent set on it nor the value its wire held at the most recent tick: ")
                    spec_bad = (k, io, {"one_of": [{"locale": l} for l in allowed]}, why + "/".join(names[l] for l in allowed))
                    break
            if io != mo:
                model_bad = (k, io, mo)
                break
            continue
        if err or io != so:
            spec_bad = (k, io, so, err)
            break
        if io != mo:
            model_bad = (k, io, mo)
            break
    if not spec_bad and not model_bad:
        fin = [idx[x] for x in r["final"]]
        if fin != m["final"]:
            model_bad = ("final", fin, m["final"])
    return spec_bad, model_bad


def is_panic(r):
    return "panic" in r or "crash" in r or "bad_op" in r or "bad_line" in r


def req_of(s):
    # the executor runs at `tick` steps only (and once before the harness' own final read-back)
    return {"op": "ops", "drain_each": False, "steps": s}


# ------------------------------------------------------------------ minimisation of a failing sequence

REFS = {"view": "view", "parent": "view", "closure": "closure", "memo": "memo", "owner": "owner", "wire": "wire"}


def makes(st):
    op = st["op"]
    out = []
    if op in VIEW_MAKERS:
        out.append("view")
    if op == "make_closure":
        out.append("closure")
    if op == "make_memo":
        out.append("memo")
    if op in ("provide_root", "provider", "child_owner"):
        out.append("owner")
    if op == "sub_wired":
        out.append("wire")
    return out


def remove_step(steps, i):
    """the sequence without step i, later indices renumbered; None when a later step refers to something step i created"""
    made = makes(steps[i])
    ids = {}
    for kind in made:
        ids[kind] = sum(1 for st in steps[:i] if kind in makes(st))
    out = list(steps[:i])
    for st in steps[i + 1:]:
        st2 = dict(st)
        for field, kind in REFS.items():
            if kind in ids and st.get(field) is not None and field in st:
                if st[field] == ids[kind]:
                    return None
                if st[field] > ids[kind]:
                    st2[field] = st[field] - 1
        out.append(st2)
    return out


def minimise(binr, names, idx, steps, opname, budget=160):
    """greedy removal of windows of 16, 8, 4, 2, 1 steps (from the back; references renumbered) keeping 'a step with the
    same operation violates the specification on this build'; at most `budget` harness runs"""
    runs = [0]

    def fails(cand):
        runs[0] += 1
        (r,), _ = run_lines(binr, [req_of(cand)])
        if is_panic(r):
            return None
        (m,) = lean_driver([{"op": "ctx.ops", "steps": to_model(cand, idx)}])
        sb, _mb = judge(cand, r, m, names, idx)
        if sb and cand[sb[0]]["op"] == opname:
            return cand[:sb[0] + 1]
        return None

    cur = steps                      # the last step is the failing one and stays
    for size in (16, 8, 4, 2, 1):
        hi = len(cur) - 1
        while hi > 0 and runs[0] < budget:
            lo = max(0, hi - size)
            cand = cur
            for j in range(hi - 1, lo - 1, -1):
                c2 = remove_step(cand, j)
                if c2 is not None:
                    cand = c2
            got = fails(cand) if len(cand) < len(cur) else None
            if got is not None:
                cur = got
                hi = min(lo, len(cur) - 1)
            else:
                hi = lo
    return cur


def evaluate(ctx, bins, names, idx, seqs, record=True, modes=None):
    """bins: [(build name, binary)]; every sequence runs on every build (sequences with wired operations: on the effects
    build only); the model / the specification run once"""
    impls = {}
    for b, binp in bins:
        sel = [i for i, s in enumerate(seqs) if b == "effects" or not has_wired(s)]
        impls[b] = dict(zip(sel, run_lines_resilient(binp, [req_of(seqs[i]) for i in sel])))
    all_bins = bins
    lreqs, keep = [], []
    for i, s in enumerate(seqs):
        bad = False
        bins = [(b, p) for b, p in all_bins if i in impls[b]]
        if not bins:
            raise HarnessError("a sequence with wired operations needs the effects build of ctx_h")
        for b, _ in bins:
            r = impls[b][i]
            if is_panic(r):
                report_violation(ctx, "ops-panics" + ("" if b == "plain" else "@" + b),
                                 {"steps": s, "impl": r, "kind": "operation sequence panics", "build": b,
                                  "harness": f"ctx_h ops ({b} build)"})
                bad = True
        if bad:
            continue
        lreqs.append({"op": "ctx.ops", "steps": to_model(s, idx)})
        keep.append(i)
    model = lean_driver(lreqs)
    mism = 0
    for i, m in zip(keep, model):
        s = seqs[i]
        bins = [(b, p) for b, p in all_bins if i in impls[b]]
        if m["model"] != m["spec"]:
            raise HarnessError("model violates its own proved specification: " + json.dumps(s))
        verdicts = {}
        for b, _ in bins:
            r = impls[b][i]
            want = (b == "effects")
            if r.get("effects") is not want:
                raise HarnessError(f"the {b} build of ctx_h reports effects={r.get('effects')!r}")
            verdicts[b] = judge(s, r, m, names, idx)
            if record:
                ctx.count("sequences_on_build=" + b)
                polled = [o["polled"] for st, o in zip(s, r["obs"]) if st["op"] == "tick" and isinstance(o, dict) and "polled" in o]
                ctx.count(f"ticks_on_build={b}", len(polled))
                ctx.count(f"ticks_that_ran_tasks_on_build={b}", sum(1 for x in polled if x > 0))
                ctx.count(f"tasks_polled_at_ticks_on_build={b}", sum(polled))
        if record:
            ctx.seen(s, nontrivial=nontrivial(s))
            if has_wired(s):
                ctx.count("sequences_with_wired_ops")
                for key, n in wired_stats(s, idx).items():
                    ctx.count(key, n)
            ctx.count("len<=%d" % next(b for b in (10, 50, 100, 200, 400, 10 ** 6) if len(s) <= b))
            if modes is not None:
                ctx.count("tick_mode=" + modes[i])
            for k, st in enumerate(s):
                ctx.count("op=" + st["op"])
                if st["op"] == "make_closure":
                    ctx.count("closure_kind=" + st["kind"])
                if st["op"] == "make_memo":
                    ctx.count("memo_kind=" + st["kind"])
                if st["op"] == "tick" and k > 0 and s[k - 1]["op"] in HOT:
                    ctx.count("tick_right_after=" + s[k - 1]["op"])
                if st["op"] in ("set", "set_untracked") and k > 0 and s[k - 1]["op"] in HOT - {"set", "set_untracked"}:
                    ctx.count("set_in_the_turn_of_a_creation")
            ctx.count("contexts", m["contexts"])
            ctx.count("views", len(m["final"]))
        failing = [b for b, _ in bins if verdicts[b][0]]
        if failing:
            # signature: the operation whose observation is wrong; "@effects" when only the build with running effects fails
            b = "plain" if "plain" in failing else failing[0]
            k, io, so, err = verdicts[b][0]
            by_wired_oracle = isinstance(so, dict) and "one_of" in so
            sig = ("wired:" if by_wired_oracle else "ops:") + s[k]["op"] + ("" if "plain" in failing else "@" + b)

            def names_of(ob):
                if isinstance(ob, dict) and "one_of" in ob:
                    return {"one_of": [names_of(x) for x in ob["one_of"]]}
                return ob if not isinstance(ob, dict) or "locale" not in ob else {"locale": names[ob["locale"]]}
            payload = {
                "steps": s[:k + 1], "failing_step": k, "got": names_of(io), "expected_by_spec": names_of(so), "why": err,
                "oracle": "WiredOracle (model-independent)" if by_wired_oracle else "history specification (Spec/Context.lean)",
                "build": b, "builds_failing": failing, "harness": f"ctx_h ops ({b} build)",
                "replay_cmd": "./check C16 --replay <this file>"}
            fresh = (not any(f["kind"] == "finding" and f["property"] == ctx.pid and f["sig"] == sig for f in load_findings())
                     and not any(v["sig"] == sig for v in ctx.violations))
            if fresh and record:
                try:
                    small = minimise(dict(bins)[b], names, idx, s[:k + 1], s[k]["op"])
                    payload["minimised_steps"] = small
                    print("C16 minimal failing sequence (%s build): %s" % (b, json.dumps(small)), flush=True)
                except Exception as e:       # minimisation is a convenience, never a reason to lose the violation
                    payload["minimise_error"] = repr(e)
            report_violation(ctx, sig, payload)
        elif any(verdicts[b][1] for b, _ in bins):
            mism += 1
            if not any(x["name"].startswith("R/ops") for x in ctx.broken):
                b = [b for b, _ in bins if verdicts[b][1]][0]
                ctx.broken.append({"kind": "correspondence", "name": "R/ops:step", "detail": {"steps": s, "build": b, "at": verdicts[b][1]}})
    return mism


def wired_stats(steps, idx):
    """evidence counters: how often a tick had something to deliver, a wire was written with the value it had, the last
    set and the wire agreed at a read (the shapes the wired theorems speak about), by replaying the oracle's bookkeeping"""
    o = WiredOracle(idx)
    out = {}

    def bump(k):
        out[k] = out.get(k, 0) + 1
    for st in steps:
        if st["op"] == "tick":
            for w, d in zip(o.W, o.D):
                bump("wired:tick_with_changed_wire" if w != d else "wired:tick_with_unchanged_wire")
        if st["op"] == "wire_set":
            bump("wired:wire_set_same_value" if o.W[st["wire"]] == idx[st["locale"]] else "wired:wire_set_new_value")
        if st["op"] in ("set", "set_untracked") and isinstance(o.vkind[st["view"]], int):
            k = o.vkind[st["view"]]
            bump("wired:set_while_wire_pending" if o.W[k] != o.D[k] else "wired:set_on_wired_context")
        r = o.step(st)
        if r is not None and r[0] == "wired":
            bump("wired:read_with_set_and_wire_agreeing" if r[1] == r[2] else "wired:read_with_set_and_wire_differing")
        elif r is not None:
            bump("wired:read_judged_by_model_only")
    return out


def selftest(bins, ctx=None):
    """effects must run in the effects build and must not in the plain one (else the two builds test the same thing)"""
    ran = {}
    for b, binp in bins:
        (r,), crash = run_lines(binp, [{"op": "effects_selftest"}])
        if crash or "phases" not in r:
            raise HarnessError(f"effects_selftest failed on the {b} build: {r!r} {crash!r}")
        ph = {p["at"]: p for p in r["phases"]}
        e = [ph[a]["effect"] for a in ("created", "tick", "set", "set_tick")]
        re_ = [ph[a]["render_effect"] for a in ("created", "tick", "set", "set_tick")]
        iso = [ph[a]["isomorphic"] for a in ("created", "tick", "set", "set_tick")]
        if iso != [[], [0], [0], [0, 7]]:
            raise HarnessError(f"{b} build: the executor does not run isomorphic effects at ticks only: {iso!r}")
        if b == "effects":
            if r["feature_effects"] is not True or e != [[], [0], [0], [0, 7]] or re_ != [[0], [0], [0], [0, 7]]:
                raise HarnessError(f"effects build of ctx_h does not run effects at ticks: effect {e!r} render_effect {re_!r}")
        else:
            if r["feature_effects"] is not False or any(e) or any(re_):
                raise HarnessError(f"plain build of ctx_h runs effects: effect {e!r} render_effect {re_!r} (target dirs mixed?)")
        ran[b] = {"effect": e[-1], "render_effect": re_[-1], "isomorphic": iso[-1]}
        # wired operations: accepted by the effects build, rejected as a whole by the plain one
        probe = [{"op": "sub_wired", "parent": None, "locale": "fr"}, {"op": "wire_set", "wire": 0, "locale": "de"}, {"op": "tick"},
                 {"op": "get", "view": 0}]
        (r,), crash = run_lines(binp, [req_of(probe)])
        if b == "effects":
            if crash or "obs" not in r:
                raise HarnessError(f"effects build of ctx_h: wired operations not answered: {r!r} {crash!r}")
            if r["obs"][-1] != {"locale": "de"} and ctx is not None:
                # the harness answered: it is the library that does not deliver the wire (the property's own exception clause: a wired
                # signal is the one way a sub-context's locale is changed from outside)
                report_violation(ctx, "wired:not-delivered@effects", {
                    "case": {"ops": probe}, "expected_by_spec": {"locale": "de"}, "implementation": r["obs"][-1],
                    "why": "a sub-context created with a wired initial-locale signal follows that signal: after the signal was set and effects ran it shows the new value",
                    "harness": "ctx_h (effects build)"})
        elif crash or "bad_op" not in r:
            raise HarnessError(f"plain build of ctx_h accepts wired operations: {r!r} {crash!r}")
    return ran


def build_all(ctx):
    bins = []
    for b, feats, variant in BUILDS:
        binp = cargo_build(ctx, "ctx_h", features=feats, variant=variant)
        if binp is None:
            return None
        bins.append((b, binp))
    return bins


def run(ctx):
    lean_check(ctx, "I18nVerif.Theorems.C16", "C16_")
    lean_check(ctx, "I18nVerif.Theorems.C16Ticks", "C16_")
    lean_check(ctx, "I18nVerif.Theorems.C16Wired", "C16_")
    bins = build_all(ctx)
    if bins is None:
        finish_broken(ctx, "harness does not build; nothing could be run")
        return
    ctx.extra["effects_selftest"] = selftest(bins, ctx)
    (loc,), _ = run_lines(bins[0][1], [{"op": "locales"}])
    names = [l["name"] for l in loc["locales"]]
    FMT0.update({l["name"]: l["fmt_number"] for l in loc["locales"]})
    idx = {n: i for i, n in enumerate(names)}
    rng = ctx.rng
    seqs, modes = [], []
    # hand-written sequences: as they are (no tick until the closing one), a tick after every step, hot, random
    for s in corpus(names) + tick_corpus(names) + wired_corpus(names):
        for mode in ("none", "each", "hot", "random"):
            seqs.append(close_sequence(add_ticks(rng, s, mode)))
            modes.append(mode)
    ncorpus = len(seqs)
    nseq = ctx.budget(1200, 16000)
    for i in range(nseq):
        # a third short (dense interaction on few contexts), the rest up to 200 operations; two in five also wire sub-contexts
        # to caller-owned signals (those run on the effects build only)
        base = gen_sequence(rng, names, 40 if i % 3 == 0 else 200, tracked_only=(i % 4 == 1), wired=(i % 5 in (2, 4)))
        mode = TICK_MODES[i % len(TICK_MODES)]
        seqs.append(close_sequence(add_ticks(rng, base, mode)))
        modes.append(mode)
    mism = 0
    chunk = 1000
    for a in range(0, len(seqs), chunk):
        mism += evaluate(ctx, bins, names, idx, seqs[a:a + chunk], modes=modes[a:a + chunk])
    ctx.sample({"steps": seqs[ncorpus][:16]})
    ctx.extra["impl_vs_model_mismatches"] = mism
    ctx.extra["exhaustive"] = False
    ctx.extra["level_note"] = (
        "proof, thin: the C16 theorems (refinement of the cell machine to the history specification, isolation, scoped "
        "views share the cell, ticks are invisible) hold for every operation sequence, but the model is deliberately tiny (an "
        "I18nContext is a Copy handle on one RwSignal; a turn of the event loop is the identity). Trusted: leptos' reactive runtime "
        "(RwSignal get/set/write_untracked atomicity, re-execution of t! closures placed in a view when the signal notifies — the "
        "harness re-invokes closures itself; effect scheduling). The correspondence (real contexts on two builds — effects inert / "
        "effects running on a deterministic executor —, every observation of every step compared) carries most of the weight. "
        "The property's stated exception — a caller-wired initial-locale signal that changes — is exercised on the effects build "
        "(sub_wired / wire_set: the written value arrives at the next tick iff it differs from what the listener memo last saw; "
        "Theorems/C16Wired.lean) and judged by a model-independent oracle (WiredOracle). "
        "Not executed: real wasm csr/hydrate builds (effects run natively here), wired signals under the plain ssr build (the forwarding "
        "RenderEffect is inert there: the plain build rejects the operations), wired <I18nSubContextProvider initial_locale=signal> "
        "(same init_i18n_subcontext_with_options underneath), wired sub-contexts WITH a cookie name, "
        "cookies (disabled in these sequences; their interplay with creation is C15).")
    ctx.assumptions += [
        "leptos reactive runtime trusted (RwSignal atomic get/set; closures are re-invoked by the harness, not by a renderer)",
        "cookies disabled for the contexts of the sequences; `sub` / `provider` create sub-contexts with a constant (non-reactive) initial locale; the property's exception 'unless the caller wired an initial-locale signal' is exercised by `sub_wired` / `wire_set` on the effects build only (caller-owned RwSignal handed to init_i18n_subcontext_with_options, no cookie name)",
        "WiredOracle reads the property as: a wired sub-context shows the locale of the most recent set* on it or the value its wire held at the most recent tick (a written signal reaches nobody before the executor runs), and exactly that locale when the two agree; which of the two, and memo reads on wired sub-contexts, are compared with the model only",
        "initial locale of new_root / provide_root taken from an exact-name Accept-Language header (resolution itself is property C15)",
        "'reactive accessor' = leptos' lazy Memo: cached value, invalidated by tracked sets only (RwSignal::set notifies even for an equal value), recomputed at the next read — modelled explicitly and compared on every read_memo",
        "which context use_i18n() returned is identified through the public API (distinguishable untracked write, read through one representative view per context, restore)",
        "providers are the real <I18nContextProvider>/<I18nSubContextProvider> components of the declare_locales! module, built with view! (not rendered to HTML); islands variants not built",
        "single-threaded deterministic executor in the harness: spawned effect futures are polled at `tick` steps only (FIFO), which stands for 'a turn of the browser event loop'; effects build = leptos `ssr` + reactive_graph `effects` on the native target, not wasm",
    ]
    finish_broken(ctx, f"{len(seqs)} operation sequences on {len(bins)} builds, every observation compared with the specification")
    write_evidence(ctx, RULE)


def replay(ctx, payload):
    bins = build_all(ctx)
    if bins is None:
        raise HarnessError("harness does not build")
    selftest(bins)
    (loc,), _ = run_lines(bins[0][1], [{"op": "locales"}])
    names = [l["name"] for l in loc["locales"]]
    FMT0.update({l["name"]: l["fmt_number"] for l in loc["locales"]})
    idx = {n: i for i, n in enumerate(names)}
    evaluate(ctx, bins, names, idx, [payload["steps"]], record=False)
    print(json.dumps({"steps": len(payload["steps"]), "violates": bool(ctx.violations)}))
