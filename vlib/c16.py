"""C16 — a context always shows the last locale set; sub-contexts are isolated.
Theorems: lean/I18nVerif/Theorems/C16.lean.  Correspondence: harness ctx_h (`ops`: a tree of real `I18nContext`s under
`ssr`, scoped views through `scope_i18n!` / `I18nContext::scope`, `t!` / `t_string!` / `tu_string!` / `t_display!` /
`td_string!` closures re-invoked) vs the Lean cell machine `Context.run`; property oracle = the history specification
`Context.Spec.observations`, compared with the implementation's observation after every step."""
from .common import *

RULE = ("random operation sequences (1..200 operations) over {new_root, sub(parent view or none, optional initial locale), "
        "scope(view), set(view, locale), set_untracked(view, locale), get(view), get_untracked(view), "
        "make_closure(view, kind in t/t_string/tu_string/t_display/td_string), call_closure(i)} on a growing forest of "
        "contexts; a quarter of the sequences use tracked sets only and also derive `Memo`s from the contexts; plus hand-written sequences (deep sub-context chains, scope cycles root->sub->deep->root keys, closures "
        "created before many sets); after every step the implementation's observation is compared with the model's and the "
        "specification's, and at the end every view is read back; non-trivial = the sequence contains a set after which some "
        "view or closure of the same context is observed; distinct = distinct sequences")

KINDS = ["t", "t_string", "tu_string", "t_display", "td_string"]
PREFIX = {0: "hello_", 1: "inner_", 2: "leaf_"}


def gen_sequence(rng, names, maxlen, tracked_only=False):
    """tracked_only: no `set_locale_untracked` in the sequence; then `Memo`s derived from the context are created as
    well (kind "memo") — a memo is notified by `set_locale` only, by design, so it is an accessor "observing the most
    recently set locale" exactly in such sequences"""
    n = rng.range(1, maxlen)
    steps = []
    nviews, nclosures = 0, 0
    # first op: almost always a root context
    for k in range(n):
        if nviews == 0:
            op = "new_root" if rng.chance(9, 10) else "sub_orphan"
        else:
            op = rng.weighted([(2, "new_root"), (8, "sub"), (1, "sub_orphan"), (10, "scope"), (20, "set"),
                               (0 if tracked_only else 12, "set_untracked"), (12, "get"), (8, "get_untracked"),
                               (10, "make_closure"),
                               (18 if nclosures else 0, "call_closure")])
        if op == "new_root":
            steps.append({"op": "new_root", "accept_language": rng.pick(names) if rng.chance(4, 5) else None})
            nviews += 1
        elif op == "sub":
            steps.append({"op": "sub", "parent": rng.below(nviews), "initial": rng.pick(names) if rng.chance(2, 5) else None})
            nviews += 1
        elif op == "sub_orphan":
            steps.append({"op": "sub", "parent": None, "initial": rng.pick(names) if rng.chance(1, 2) else None})
            nviews += 1
        elif op == "scope":
            steps.append({"op": "scope", "view": rng.below(nviews)})
            nviews += 1
        elif op in ("set", "set_untracked"):
            steps.append({"op": op, "view": rng.below(nviews), "locale": rng.pick(names)})
        elif op in ("get", "get_untracked"):
            steps.append({"op": op, "view": rng.below(nviews)})
        elif op == "make_closure":
            kind = "memo" if tracked_only and rng.chance(1, 2) else rng.pick(KINDS)
            steps.append({"op": "make_closure", "view": rng.below(nviews), "kind": kind})
            nclosures += 1
        else:
            steps.append({"op": "call_closure", "closure": rng.below(nclosures)})
    return steps


def corpus(names):
    seqs = []
    # deep chain of sub-contexts, each created from the previous one, then sets at every level, reads everywhere
    s = [{"op": "new_root", "accept_language": "fr"}]
    for d in range(12):
        s.append({"op": "sub", "parent": d, "initial": None})
    for d in range(13):
        s.append({"op": "make_closure", "view": d, "kind": KINDS[d % 5]})
    for d in range(13):
        s.append({"op": "set" if d % 2 else "set_untracked", "view": d, "locale": names[d % len(names)]})
        for e in range(13):
            s.append({"op": "get", "view": e})
            s.append({"op": "call_closure", "closure": e})
    seqs.append(s)
    # scope cycle: root keys -> sub -> deep -> root keys -> ...; set through each, observe through all
    s = [{"op": "new_root", "accept_language": None}]
    for d in range(9):
        s.append({"op": "scope", "view": d})
    for d in range(10):
        s.append({"op": "make_closure", "view": d, "kind": KINDS[(d + 2) % 5]})
    for d in range(10):
        s.append({"op": "set_untracked" if d % 3 == 0 else "set", "view": d, "locale": names[(d + 1) % len(names)]})
        for e in range(10):
            s.append({"op": "get_untracked", "view": e})
            s.append({"op": "call_closure", "closure": e})
    seqs.append(s)
    # sub-context from a scoped view, with and without initial locale; parent and child set alternately
    s = [{"op": "new_root", "accept_language": "de"}, {"op": "scope", "view": 0}, {"op": "scope", "view": 1},
         {"op": "sub", "parent": 2, "initial": None}, {"op": "sub", "parent": 1, "initial": "fr-CA"},
         {"op": "scope", "view": 3}, {"op": "make_closure", "view": 0, "kind": "t"},
         {"op": "make_closure", "view": 5, "kind": "t"}, {"op": "make_closure", "view": 4, "kind": "td_string"}]
    for k in range(8):
        s.append({"op": "set", "view": [0, 3, 4, 2, 5][k % 5], "locale": names[k % len(names)]})
        for v in range(6):
            s.append({"op": "get", "view": v})
        for c in range(3):
            s.append({"op": "call_closure", "closure": c})
    seqs.append(s)
    # tracked sets only: memos derived from every view before the sets must follow them
    s = [{"op": "new_root", "accept_language": "fr"}, {"op": "scope", "view": 0}, {"op": "scope", "view": 1},
         {"op": "sub", "parent": 1, "initial": None}, {"op": "scope", "view": 3}]
    for v in range(5):
        s.append({"op": "make_closure", "view": v, "kind": "memo"})
    for c in range(5):
        s.append({"op": "call_closure", "closure": c})
    for k in range(10):
        s.append({"op": "set", "view": (k * 3) % 5, "locale": names[(k + 1) % len(names)]})
        for c in range(5):
            s.append({"op": "call_closure", "closure": c})
    seqs.append(s)
    # sub-contexts without any parent context, several roots
    s = [{"op": "sub", "parent": None, "initial": None}, {"op": "sub", "parent": None, "initial": "fr"},
         {"op": "new_root", "accept_language": "en-US"}, {"op": "new_root", "accept_language": "xx"},
         {"op": "sub", "parent": 3, "initial": None}]
    for v in range(5):
        s.append({"op": "get", "view": v})
    s += [{"op": "set", "view": 3, "locale": "de"}, {"op": "get", "view": 4}, {"op": "get", "view": 3}]
    seqs.append(s)
    return seqs


def to_model(steps, idx):
    out = []
    for s in steps:
        op = s["op"]
        if op == "new_root":
            al = s["accept_language"]
            out.append({"op": "new_root", "init": idx.get(al, 0) if al is not None else 0})
        elif op == "sub":
            out.append({"op": "sub", "parent": s["parent"], "initial": None if s["initial"] is None else idx[s["initial"]],
                        "fallback": 0})
        elif op in ("set", "set_untracked"):
            out.append({"op": op, "view": s["view"], "locale": idx[s["locale"]]})
        elif op == "make_closure":
            out.append({"op": op, "view": s["view"]})
        else:
            out.append(dict(s))
    return out


def impl_obs(step, o, levels, idx):
    """normalise one observation of the harness into the model's vocabulary; returns (obs, error or None)"""
    op = step["op"]
    if op in ("new_root", "sub", "scope"):
        return {"view": o["view"]}, None
    if op in ("set", "set_untracked"):
        return None, None
    if op in ("get", "get_untracked"):
        return {"locale": idx[o["locale"]]}, None
    if op == "make_closure":
        levels.append(o["level"])
        return {"closure": o["closure"]}, None
    if op == "call_closure":
        pre = PREFIX[levels[step["closure"]]]
        text = o["text"]
        if not text.startswith(pre) or text[len(pre):] not in idx:
            return {"text": text}, f"closure rendered {text!r}, not a {pre}<locale> text"
        return {"locale": idx[text[len(pre):]]}, None
    raise HarnessError("unknown op " + op)


def nontrivial(steps):
    seen_set = False
    for s in steps:
        if s["op"] in ("set", "set_untracked"):
            seen_set = True
        elif seen_set and s["op"] in ("get", "get_untracked", "call_closure"):
            return True
    return False


def evaluate(ctx, binr, names, idx, seqs, record=True):
    impl = run_lines_resilient(binr, [{"op": "ops", "steps": s} for s in seqs])
    lreqs, keep = [], []
    for s, r in zip(seqs, impl):
        if "panic" in r or "crash" in r or "bad_op" in r or "bad_line" in r:
            report_violation(ctx, "ops-panics", {"steps": s, "impl": r, "kind": "operation sequence panics",
                                                 "harness": "ctx_h ops"})
            continue
        lreqs.append({"op": "ctx.ops", "steps": to_model(s, idx)})
        keep.append((s, r))
    model = lean_driver(lreqs)
    mism = 0
    for (s, r), m in zip(keep, model):
        if m["model"] != m["spec"]:
            raise HarnessError("model violates its own proved specification: " + json.dumps(s))
        levels = []
        spec_bad = model_bad = None
        for k, (st, o) in enumerate(zip(s, r["obs"])):
            io, err = impl_obs(st, o, levels, idx)
            if err or io != m["spec"][k]:
                spec_bad = (k, io, m["spec"][k], err)
                break
            if io != m["model"][k]:
                model_bad = (k, io, m["model"][k])
                break
        if not spec_bad and not model_bad:
            fin = [idx[x] for x in r["final"]]
            if fin != m["final"]:
                model_bad = ("final", fin, m["final"])
        if record:
            ctx.seen(s, nontrivial=nontrivial(s))
            ctx.count("len<=%d" % (10 if len(s) <= 10 else 50 if len(s) <= 50 else 100 if len(s) <= 100 else 200 if len(s) <= 200 else 1000))
            for st in s:
                ctx.count("op=" + st["op"])
                if st["op"] == "make_closure":
                    ctx.count("closure_kind=" + st["kind"])
            ctx.count("contexts", m["contexts"])
            ctx.count("views", len(m["final"]))
        if spec_bad:
            k, io, so, err = spec_bad
            names_of = lambda ob: ob if not isinstance(ob, dict) or "locale" not in ob else {"locale": names[ob["locale"]]}
            report_violation(ctx, "ops:" + s[k]["op"], {
                "steps": s[:k + 1], "failing_step": k, "got": names_of(io), "expected_by_spec": names_of(so), "why": err,
                "harness": "ctx_h ops", "replay_cmd": "./check C16 --replay <this file>"})
        elif model_bad:
            mism += 1
            if not any(b["name"].startswith("R/ops") for b in ctx.broken):
                ctx.broken.append({"kind": "correspondence", "name": "R/ops:step", "detail": {"steps": s, "at": model_bad}})
    return mism


def run(ctx):
    lean_check(ctx, "I18nVerif.Theorems.C16", "C16_")
    binr = cargo_build(ctx, "ctx_h")
    if binr is None:
        finish_broken(ctx, "harness does not build; nothing could be run")
        return
    (loc,), _ = run_lines(binr, [{"op": "locales"}])
    names = [l["name"] for l in loc["locales"]]
    idx = {n: i for i, n in enumerate(names)}
    rng = ctx.rng
    seqs = corpus(names)
    nseq = ctx.budget(300, 10000)
    for i in range(nseq):
        # a third short (dense interaction on few contexts), the rest up to 200 operations
        seqs.append(gen_sequence(rng, names, 40 if i % 3 == 0 else 200, tracked_only=(i % 4 == 1)))
    mism = 0
    chunk = 1000
    for a in range(0, len(seqs), chunk):
        mism += evaluate(ctx, binr, names, idx, seqs[a:a + chunk])
    ctx.sample({"steps": seqs[len(corpus(names))][:12]})
    ctx.extra["impl_vs_model_mismatches"] = mism
    ctx.extra["exhaustive"] = False
    ctx.extra["level_note"] = (
        "proof, thin: the C16 theorems (refinement of the cell machine to the history specification, isolation, scoped "
        "views share the cell) hold for every operation sequence, but the model is deliberately tiny (an I18nContext is a "
        "Copy handle on one RwSignal). Trusted: leptos' reactive runtime (RwSignal get/set/write_untracked atomicity, "
        "re-execution of t! closures placed in a view when the signal notifies — the harness re-invokes closures itself). "
        "The correspondence (real contexts, every observation of every step compared) carries most of the weight. "
        "Not executed: hydrate/csr builds, the RenderEffect that forwards a caller-wired initial-locale signal (the "
        "property's stated exception), cookies (disabled in these sequences; their interplay with creation is C15).")
    ctx.assumptions += [
        "leptos reactive runtime trusted (RwSignal atomic get/set; closures are re-invoked by the harness, not by a renderer)",
        "cookies disabled for the contexts of the sequences; sub-contexts created with constant (non-reactive) initial locale",
        "initial locale of new_root taken from an exact-name Accept-Language header (resolution itself is property C15)",
        "single-threaded deterministic executor for leptos' isomorphic effects in the harness",
    ]
    finish_broken(ctx, f"{len(seqs)} operation sequences, every observation compared with the specification")
    write_evidence(ctx, RULE)


def replay(ctx, payload):
    binr = cargo_build(ctx, "ctx_h")
    if binr is None:
        raise HarnessError("harness does not build")
    (loc,), _ = run_lines(binr, [{"op": "locales"}])
    names = [l["name"] for l in loc["locales"]]
    idx = {n: i for i, n in enumerate(names)}
    evaluate(ctx, binr, names, idx, [payload["steps"]], record=False)
    print(json.dumps({"steps": len(payload["steps"]), "violates": bool(ctx.violations)}))
