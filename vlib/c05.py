"""C05 — plural forms are selected by the locale's CLDR plural rules.
Theorems: lean/I18nVerif/Theorems/C05.lean.  Correspondence: (P) projects with plural groups over locales spanning
the CLDR category patterns; merged keys, forms, rule type, unused-form warnings and conflicts compared with the
property's statement (computed independently from the files and the ICU4X oracle) and with the Lean model; the
form selected for counts 0..=200 (+ large / decimal operands) through the value's denotation.  (X) probe crate:
td_string!/td! for plural keys over those locales."""
from .pipe import *
import os
from . import probe

LOCALES = ["en", "fr", "ru", "ar", "pl", "ja", "cy", "ga", "he", "lt"]
RULE = ("all subsets of plural forms containing `other` x cardinal/ordinal (exhaustive in thorough, sampled in quick) x locales "
        "en fr ru ar pl ja cy ga he lt; conflicting groups (cardinal+ordinal, collision with a plain key, invalid base key, single form, no `other`); "
        "counts 0..=200, 1000000 and 1.5 through the ICU4X oracle; non-trivial = group merged into a plural; distinct = distinct (forms, rule, locales, extras)")
COUNT_OPS = [f"u:{n}" for n in range(0, 201)] + ["u:1000000", "f:1.5", "i:-1"]


def mk_project(rng, forms, ordinal, locales, extra=None, base="items"):
    infix = "_ordinal" if ordinal else ""
    files = {}
    for l in locales:
        pairs = [(f"{base}{infix}_{f}", f"{f.upper()}-{l} {{{{ count }}}}") for f in forms]
        if extra == "collision":
            pairs.append((base, "plain"))
        if extra == "mixed":
            pairs.append((f"{base}_ordinal_two" if not ordinal else f"{base}_two", "MIXED"))
        if extra == "same-form-both":
            pairs.append((f"{base}_ordinal_other" if not ordinal else f"{base}_other", "BOTH"))
        pairs.append(("plain_key", "p"))
        files[(None, l)] = proj.O(rng.shuffle(pairs))
    return {"default": locales[0], "locales": list(locales), "all_locales": list(locales), "namespaces": None, "inherits": {},
            "files": files, "extra_cfg": False, "meta": {}, "plural": {"forms": forms, "ordinal": ordinal, "extra": extra, "base": base}}


def oracle(ctx, p, o, i):
    info = p["plural"]
    forms, ordinal, extra, base = info["forms"], info["ordinal"], info["extra"], info["base"]
    cats = {(l, r): fs for l, r, fs in o["impl"]["oracle"]["cats"]}
    cat = {(l, r, k): f for l, r, k, f in o["impl"]["oracle"]["cat"]}
    rule = "ordinal" if ordinal else "cardinal"
    merged = len(forms) >= 2 and "other" in forms
    ctx.seen({"forms": forms, "ordinal": ordinal, "locales": p["locales"], "extra": extra, "base": base}, nontrivial=merged)
    ci = o["ci"]
    # expected outcome per the property
    exp_err = None
    valid_base = base and base.replace("-", "_").isidentifier() and base not in ("type", "_", "fn", "self")
    if extra == "same-form-both":
        exp_err = "ConflictingPluralRuleType"
    elif extra == "mixed" and merged:
        # the extra `two` form of the other rule type joins the same base key: mixing is an error
        exp_err = "ConflictingPluralRuleType"
    elif merged and not valid_base:
        exp_err = "InvalidKey"
    elif merged and extra == "collision":
        exp_err = "PluralsAtNormalKey"
    if extra == "mixed" and not merged:
        return    # the extra form changes which keys merge; only the impl-vs-model comparison applies
    if exp_err:
        if ci.get("err") != exp_err:
            report_violation(ctx, "plurals:expected-error-" + exp_err, {"case": project_text(p), "expected_by_spec": {"err": exp_err},
                                                                      "implementation": ci if "err" in ci else "accepted"})
        return
    if "ok" not in ci:
        report_violation(ctx, "plurals:valid-group-rejected", {"case": project_text(p), "implementation": o["impl"]["result"]})
        return
    res = o["impl"]["result"]["ok"]
    ns_out = res["nss"][0]
    keyset = {path for path, _ in iter_bki(ns_out["keys"])}
    infix = "_ordinal" if ordinal else ""
    exp_keys = {(base,), ("plain_key",)} if merged else {(f"{base}{infix}_{f}",) for f in forms} | {("plain_key",)}
    if keyset != exp_keys:
        report_violation(ctx, "plurals:merged-key-set", {"case": project_text(p), "expected_by_spec": sorted(map(list, exp_keys)),
                                                       "implementation": sorted(map(list, keyset))})
        return
    if not merged:
        return
    exp_unused = sorted((l, f) for l in p["locales"] for f in forms if f != "other" and f not in (cats.get((l, rule)) or []))
    got_unused = sorted((w["locale"], w["form"]) for w in res["warnings"] if w["w"] == "unused_form")
    if exp_unused != got_unused:
        report_violation(ctx, "plurals:unused-form-warnings", {"case": project_text(p), "expected_by_spec": exp_unused, "implementation": got_unused})
    for l in p["locales"]:
        v = locale_value_at(ns_out, l, (base,))
        if v is None or v["t"] != "plurals" or v["rule"] != rule:
            report_violation(ctx, "plurals:not-a-plural-of-the-rule-type", {"case": project_text(p), "locale": l, "implementation": v})
            continue
        for op in COUNT_OPS:
            f = cat.get((l, rule, op))
            if f is None:
                continue
            from fractions import Fraction
            c = Fraction(op[2:])
            env = Env(vars={"var_count": str(c)}, var_default=("?", ""), var_fmt=False, count_default=c, cat_default=f)
            got = pv_eval(env, v)
            chosen = f if f in forms else "other"
            exp = f"{chosen.upper()}-{l} {c}"
            ctx.count("form:" + chosen)
            if got != exp:
                report_violation(ctx, "plurals:wrong-form-rendered", {"case": project_text(p), "locale": l, "count": op, "cldr_category": f,
                                                                    "expected_by_spec": exp, "implementation": got})
                break


def run(ctx):
    rng = ctx.rng
    projects = []
    import itertools
    subsets = []
    others = ["zero", "one", "two", "few", "many"]
    for r in range(0, 6):
        for s in itertools.combinations(others, r):
            subsets.append(list(s) + ["other"])
    combos = [(s, ordn) for s in subsets for ordn in (False, True)]
    if ctx.quick:
        combos = rng.sample(combos, 24)
    else:
        ctx.extra["exhaustive_part"] = "all 32 form subsets containing `other` x {cardinal, ordinal} x 10 locales"
    for s, ordn in combos:
        projects.append(mk_project(rng, s, ordn, LOCALES))
    for extra in ("collision", "mixed", "same-form-both"):
        for _ in range(ctx.budget(4, 30)):
            s = rng.pick(subsets[1:])
            projects.append(mk_project(rng, s, rng.chance(1, 2), rng.sample(LOCALES, 3), extra=extra))
    for base in ("type", "_", "x-y", "a_b", "fn"):
        projects.append(mk_project(rng, ["one", "other"], False, ["en", "fr"], base=base))
    projects.append(mk_project(rng, ["other"], False, ["en"]))
    projects.append(mk_project(rng, ["one", "two"], False, ["en"]))
    # the harness must supply the CLDR oracle for all counts
    orig = proj.literal_operands
    proj.literal_operands = lambda p: COUNT_OPS
    try:
        generic_pipeline_check(ctx, [("I18nVerif.Theorems.C05", "C05_"), ("I18nVerif.Theorems.C05Map", "C05_")], projects, oracle, "C05")
        # the build with `suppress_key_warnings` silences the missing / surplus *key* reports only: merged keys, forms and the
        # unused-form reports are the same there
        generic_pipeline_check(ctx, [], projects if ctx.quick else rng.sample(projects, min(len(projects), 200)), oracle, "C05-suppress", suppress=True)
        more = [proj.gen_project(rng, {"fk": True, "locale_pool": LOCALES}) for _ in range(ctx.budget(150, 3000))]
    finally:
        proj.literal_operands = orig
    generic_pipeline_check(ctx, [], more, lambda c, p, o, i: None, "C05-generated")
    # the form chosen for a *literal* count given through `$t(.., {"count": n})` at parse time is the one the run-time accessor of the
    # locale being rendered would choose, also when the plural's forms are inherited from another locale (C06's family and oracle)
    from . import c06
    orig = proj.literal_operands
    proj.literal_operands = lambda p: sorted(set(orig(p)) | {"u:%d" % n for n in (0, 1, 2, 3, 5, 11, 21, 100)})
    try:
        generic_pipeline_check(ctx, [], c06.plural_fallback_family(rng, ctx.budget(150, 4000)), c06.plural_fallback_oracle, "C05-literal-count-category")
    finally:
        proj.literal_operands = orig
    # the `t*_plural*!` macro family at run time: every flavour picks the CLDR category of its own rule type (ICU4X called directly)
    binc = cargo_build(ctx, "ctx_h")
    if binc is not None:
        counts = list(range(0, 32)) + [100, 101, 102, 103, 111, 112, 113, 1000, 1000000]
        # (locale, locale the context showed when the `t_*` accessor closures were created): an accessor follows the context
        pm = [("en", None), ("en-US", None), ("fr", None), ("fr-CA", None), ("de", None), ("fr", "en"), ("en", "fr"), ("de", "fr-CA"), ("fr-CA", "en-US")]
        rows, _ = run_lines(binc, [dict({"op": "plural_macros", "locale": l, "counts": counts}, **({"built_under": b} if b else {})) for l, b in pm])
        for (l, built), r in zip(pm, rows):
            if "rows" not in r:
                report_violation(ctx, "plural-macros:panics", {"case": {"op": "plural_macros", "locale": l}, "impl": r})
                continue
            for row in r["rows"]:
                ctx.seen({"plural_macros": l, "count": row["count"]}, nontrivial=row["cldr_cardinal"] != row["cldr_ordinal"])
                for mac in ("td_plural", "t_plural", "tu_plural", "td_plural_ordinal", "t_plural_ordinal", "tu_plural_ordinal"):
                    exp = row["cldr_ordinal" if mac.endswith("_ordinal") else "cldr_cardinal"]
                    ctx.count("plural_macro:" + mac)
                    if row[mac] != exp:
                        report_violation(ctx, "plural-macros:wrong-category", {
                            "case": {"macro": mac + "!", "locale": l, "count": row["count"], "accessor_created_while_the_context_showed": built or l}, "expected_by_spec": exp, "implementation": row[mac],
                            "why": "the macro matches on the %s plural category of the count in the current locale" % ("ordinal" if mac.endswith("_ordinal") else "cardinal"),
                            "harness": "ctx_h plural_macros (ICU4X PluralRules called directly as oracle)"})
                        break
    # the same categories whatever supplies the CLDR data: leptos_i18n built without `icu_compiled_data`, plural rules obtained through a custom
    # provider — a hand-written `IcuDataProvider` impl, and the impl generated by `#[derive(IcuDataProvider)]` (harness fmt_np_h, two builds)
    for variant, feats, who in (("np", None, "hand-written IcuDataProvider impl"), ("np-derived", ["derived"], "#[derive(IcuDataProvider)] impl")):
        binn = cargo_build(ctx, "fmt_np_h", features=feats, variant=variant)
        if binn is None:
            continue
        reqs = [{"op": "plural", "locale": l, "rule": rule, "n": n} for l in ("en", "fr", "ru", "ar") for rule in ("cardinal", "ordinal")
                for n in list(range(0, 32)) + [100, 101, 102, 103, 111, 112, 113, 1000, 1000000]]
        for q, r in zip(reqs, run_lines_resilient(binn, reqs)):
            ctx.seen({"custom_provider": variant, "q": q}, nontrivial=True)
            ctx.count("custom_provider_plural:" + variant)
            if "panic" in r or "crash" in r or "bad_op" in r or "oracle" not in r:
                report_violation(ctx, "plural-custom-provider:no-answer", {"case": q, "provider": who, "impl": r})
                break
            # the small project of the harness writes each form's own name as its text; forms it does not write fall back to `other`
            keys = json.load(open(os.path.join(HARNESS_DIR, "fmt_np_h", "locales", q["locale"] + ".json")))
            pre = "items_" if q["rule"] == "cardinal" else "rank_ordinal_"
            written = {k[len(pre):] for k in keys if k.startswith(pre)}
            exp_text = r["oracle"] if r["oracle"] in written else "other"
            if r["impl"] != r["oracle"] or r["string"] != exp_text:
                report_violation(ctx, "plural-custom-provider:wrong-category", {
                    "case": q, "provider": who, "expected_by_spec": {"category": r["oracle"], "text": exp_text},
                    "implementation": {"category": r["impl"], "text": r["string"]},
                    "why": "the %s category ICU4X assigns to the count for the locale" % q["rule"],
                    "harness": "fmt_np_h plural (" + variant + " build; ICU4X PluralRules with compiled data called directly as oracle)"})
                break
    # compiled code: ordinal and cardinal keys rendered by td_string! / td_display! / td! over locales with different CLDR patterns
    probe.run_render_probe(ctx, rng, n_crates=ctx.budget(1, 3), flavours=("string", "display", "view"), sig_prefix="plurals", per_key=4,
                           opts={"locales": ["en", "fr", "cy", "ru", "pt", "pt-PT"], "long_key": False, "formatted_keys": False, "overlap_keys": False})
    # en/cy have rich ordinal rules, ru rich cardinal ones; pt and pt-PT share a language but not their rules (0 is `one` in pt only):
    # both are rendered in the same process
    ctx.assumptions += PARSER_ASSUMPTIONS + ["CLDR plural rules themselves (ICU4X compiled data) are modelled as an oracle, not verified"]
    finish_broken(ctx, f"{len(projects)} plural projects")
    write_evidence(ctx, RULE)
