"""C09 — loading translations never panics or hangs.
Theorems: lean/I18nVerif/Theorems/C09.lean (parser totality / fuel sufficiency / offsets in bounds).
Correspondence: parser harness under catch_unwind on (a) token soup around the delimiters, (b) the corpus of
past panic witnesses, (c) malformed and well-formed projects; a panic, crash or timeout of the real code is a
violation with the input as replay.  impl vs model on every case as well."""
from .pipe import *
from .c03 import exhaustive_projects

INHERITS_CORPUS = exhaustive_projects()
import os

RULE = ("token soup over the parser's delimiters with multibyte characters and Unicode whitespace (>= 50% malformed), "
        "past panic witnesses (F1-F7, F18), grammar-directed projects with malformed mutations; non-trivial = contains at least "
        "one delimiter token; distinct = distinct input text")

WITNESS_STRINGS = [
    "<b>x</b >tail", "<b>x</b\u2003>", "$t(b,", "$t(b,é)", "$t(b, {", "$t(b, }", "$t(b, {\"a\": }", "$t(b, {\"a\":\"$t(c,\"})",
    "{{", "}}", "{{}}", "<>", "</>", "<a></a", "<a><a></a>", "$t()", "$t(,)", "$t(a:b:c)", "$t(a..b)", "{{ x, }}", "{{ x, number( }}",
    "{{ x, number) }}", "é<é>é</é>é", "\u2003{{\u2003x\u2003}}\u2003", "<b\u00a0>x</b\u00a0>", "{{ a }}" * 40, "<i>" * 30 + "</i>" * 30,
    "$t(a, {\"count\": 1e400})", "$t(a, {\"x\": \"\\ud83d\"})", "$t(a, {\"x\": \"\\ud83d\\ude00\"})",
    # multibyte text inside the argument object (byte offsets of the closing brace)
    "$t(hello, {\"name\": \"ééé\"})", "$t(a, {\"x\": \"€€\"}) tail", "$t(a, {\"x\": \"日本語のテキスト\"})", "x $t(a, {\"x\": \"naïve café\", \"y\": \"😀😀\"}) é",
    "$t(a, {\"é\": \"é\"})}", "$t(a, {\"x\": \"ééééé\"}", "$t(a, {\"x\": \"}é}é}\"})",
]

WITNESS_PROJECTS = [
    # (default-locale file content as decoded tree, note)
    ({"o": [["r", {"a": ["i8", {"a": ["zero", {"u": 0}]}, {"a": ["pos", "1.."]}]}], ["k", "$t(r, {\"count\": -1})"]]}, "F3"),
    ({"o": [["a_one", "one $t(x)"], ["a_other", "other"], ["x", "X"]]}, "F4"),
    ({"o": [["type_one", "1"], ["type_other", "n"]]}, "F5"),
    ({"o": [["_one", "1"], ["_other", "n"]]}, "F5b"),
    ({"o": [["a_one", None], ["a_other", "n"]]}, "F6"),
    ({"o": [["r", {"a": [{"a": [None, {"u": 1}]}, {"a": ["x"]}]}]]}, "F6b"),
    ({"o": [["r", {"a": ["f32", {"a": ["x", "NaN"]}, {"a": ["y"]}]}]]}, "F7"),
    ({"o": [["r", {"a": ["f64", {"a": ["x", "inf.."]}, {"a": ["y"]}]}]]}, "F7b"),
    ({"o": [["r", {"a": ["f64", {"a": ["x", "1e999"]}, {"a": ["y"]}]}]]}, "F7c"),
    ({"o": [["r", {"a": ["f32", {"a": ["x", {"f": "100000000000000000000000000000000000000000.0"}]}, {"a": ["y"]}]}]]}, "F7d"),
    ({"o": [["r", {"a": ["i8"]}]]}, "F18"),
    ({"o": [["r", {"a": ["i8"]}], ["k", "$t(r, {\"count\": 1})"]]}, "F18b"),
    ({"o": [["a", "$t(b)"], ["b", "$t(a)"]]}, "cycle"),
    ({"o": [["a", "$t(a)"]]}, "self-cycle"),
    ({"o": [["a", "$t(g)"], ["g", {"o": [["x", "y"]]}]]}, "fk-to-subkeys"),
    ({"o": [["a_one", "x"], ["a_other", "y"], ["a_ordinal_other", "z"]]}, "F9"),
    ({"o": [["a_one", "x"], ["a_other", "y"], ["a", "z"]]}, "plural-at-normal-key"),
    ({"o": [["t", "T"], ["x_one", "a $t(t)"], ["x_other", "b"], ["x_one_one", "c"], ["x_one_other", "d"]]}, "F23"),
    ({"o": [["t", "T"], ["x_one_one", "a $t(t)"], ["x_one_other", "b"], ["x_one", "c"], ["x_other", "d"]]}, "F23b"),
    ({"o": [["t", "T"], ["g", {"o": [["x_ordinal_one", "a $t(t)"], ["x_ordinal_other", "b"], ["x_ordinal_one_one", "c"], ["x_ordinal_one_other", "d"]]}]]}, "F23c"),
]


ODD_LOCALE_NAMES = ["not a locale", "e", "en--US", "x_y", "toolonglanguagetag", "en-", "123", "é", "en US", "EN-us",
                    # well-formed BCP-47 tags that are more than a language identifier (extensions, private use, variants, scripts)
                    "ar-u-nu-latn", "th-u-ca-buddhist", "en-x-custom", "en-t-ja", "de-CH-1996", "sr-Latn-RS", "zh-Hant-TW", "en-u-ca-gregory-x-y",
                    "x-private", "und", "root", "i-klingon", "en-US-u-va-posix",
                    # names that are identifiers of a special kind: raw identifiers, keywords, underscores, letters whose upper case is longer
                    "r#en", "r#fr", "r#type", "r#Self", "type", "fn", "self", "Self", "crate", "_", "__", "_en", "en_US", "En", "ǆ", "ŉ", "ß", "fr-", "-fr", "f-r"]


def mutate_file_text(rng, text):
    """malformed stream: byte-level mutations of a well-formed file"""
    ops = rng.range(1, 3)
    for _ in range(ops):
        if not text:
            break
        i = rng.below(len(text))
        k = rng.below(5)
        if k == 0:
            text = text[:i] + text[i + 1:]
        elif k == 1:
            text = text[:i] + rng.pick(['{', '}', '[', ']', '"', ',', ':', 'null', '{{', '<', '$t(', '\\', '\u2003', 'é']) + text[i:]
        elif k == 2:
            text = text[:i] + text[i:i + rng.range(1, 8)] + text[i:]
        elif k == 3:
            text = text[:i]
        else:
            j = rng.below(len(text))
            text = text[:min(i, j)] + text[max(i, j):]
    return text


def has_tail_into_cycle(inherits):
    """some locale's chain reaches a cycle it is not itself part of"""
    for start in inherits:
        seen, cur = [], start
        while cur in inherits and cur not in seen:
            seen.append(cur)
            cur = inherits[cur]
        if cur in seen and cur != start:
            return True
    return False


# ---- the other file formats: what YAML and JSON5 can say and JSON cannot
FORMAT_TOKENS = {
    "yaml": [".inf", "-.inf", "+.inf", ".nan", ".NaN", ".Inf", "0x1F", "0o17", "~", "null", "!!float 1", "!!str 1", "1_000", "1e3", "1.0e+400", "-1.0e+400",
             "&a 1", "*a", "yes", "on", "2001-12-14", "'it''s'", "|\n    block\n", ">\n    folded\n", "? x", "- 1", "[1, 2", "{a: 1", "\"\\x41\"", "!!binary aGk=", "0.1e-400",
             "18446744073709551616", "-9223372036854775809", "1.7976931348623157e308", "4.9e-324", "- .inf", "[.inf]", "{count: .nan}"],
    "json5": ["Infinity", "-Infinity", "+Infinity", "NaN", "-NaN", "0x1F", "-0x1F", ".5", "5.", "+1", "'single'", "'it\\'s'", "1e400", "-1e400", "1e-400", "// c\n1", "/* c */ 1",
              "[1, 2,]", "{a: 1,}", "{unquoted: 'x'}", "\"line\\\ncontinued\"", "18446744073709551616", "-9223372036854775809", "0x7fffffffffffffffffff", "[Infinity]", "{count: NaN}",
              "1.7976931348623157e308", "5e-324"],
}
CODEGEN_FEATURES = ["interpolate_display", "plurals", "format_datetime", "format_list", "format_nums", "format_currency", "icu_compiled_data", "ssr"]


def format_cases(rng, fmt, n):
    """en-only projects in `fmt`: every format-specific token as a top-level value, as a member of a sequence value (a range / plural position),
    as a foreign-key target and spliced over a scalar of a generated file; plus generated projects written in that format (a third of them mutated)"""
    ext = proj.EXT[fmt]
    cfg = '[package]\nname = "p"\n[package.metadata.leptos-i18n]\ndefault = "en"\nlocales = ["en"]\n'
    out = []
    q = (lambda k: k) if fmt == "yaml" else json.dumps
    for t in FORMAT_TOKENS[fmt]:
        if fmt == "yaml":
            texts = [f"k: {t}\n", f"k:\n  - f64\n  - [a, {t}]\n  - [b]\n", f"k: {t}\nj: \"$t(k)\"\ns: \"x {{{{ v }}}}\"\nr: \"$t(s, {{\\\"v\\\": \\\"$t(k)\\\"}})\"\n",
                     f"k_one: {t}\nk_other: {t}\n", f"g:\n  k: {t}\n", f"{t}\n", f"k:\n  - i8\n  - {{count: {t}, value: a}}\n  - {{value: b}}\n"]
        else:
            texts = ["{k: %s}" % t, '{k: ["f64", ["a", %s], ["b"]]}' % t, '{k: %s, j: "$t(k)", s: "x {{ v }}", r: "$t(s, {\\"v\\": \\"$t(k)\\"})"}' % t,
                     "{k_one: %s, k_other: %s}" % (t, t), "{g: {k: %s}}" % t, t, '{k: ["i8", {count: %s, value: "a"}, {value: "b"}]}' % t]
        for text in texts:
            out.append({"cargo_toml": cfg, "files": [[f"locales/en.{ext}", text]], "token": t})
    import re as _re
    scalar = _re.compile(r'(?<=: )("(?:[^"\\]|\\.)*"|-?[0-9][0-9.eE+-]*|true|false|null)')
    for _ in range(n):
        p = proj.gen_project(rng)
        r = proj.harness_req(p, fmt)
        files = r["files"]
        k = rng.below(3)
        if k == 0 and files:
            i = rng.below(len(files))
            ms = list(scalar.finditer(files[i][1]))
            if ms:
                m = rng.pick(ms)
                files[i] = [files[i][0], files[i][1][:m.start()] + rng.pick(FORMAT_TOKENS[fmt]) + files[i][1][m.end():]]
        elif k == 1:
            files = [[f, mutate_file_text(rng, t)] for f, t in files]
        out.append({"cargo_toml": r["cargo_toml"], "files": files})
    return out


def formats_stage(ctx, rng):
    for fmt in ("yaml", "json5"):
        binp = build_parser(ctx, fmt)
        bing = cargo_build(ctx, "codegen_h", features=[fmt + "_files"] + CODEGEN_FEATURES, variant=fmt + "_files")
        if binp is None or bing is None:
            continue
        cases = format_cases(rng, fmt, ctx.budget(400, 8000))
        pres = run_lines_resilient(binp, [dict(c, op="pipeline", operands=[]) for c in cases], timeout=3600)
        gres = run_lines_resilient(bing, [dict(c, op="codegen") for c in cases], timeout=3600)
        for c, pr, gr in zip(cases, pres, gres):
            ctx.seen({"fmt": fmt, "files": c["files"], "cfg": c["cargo_toml"]})
            res = pr.get("result", pr)
            k = "ok" if "ok" in res else ("err" if "err" in res else "PANIC")
            g = "ok" if "ok" in gr else ("err" if "err" in gr else "PANIC")
            ctx.count(f"{fmt}:parser:{k}")
            ctx.count(f"{fmt}:codegen:{g}")
            if "panic" in pr or "crash" in pr or "panic" in res:
                report_violation(ctx, "pipeline-panics", {"case": dict(c, op="pipeline"), "impl": pr, "format": fmt,
                                                         "expected_by_spec": "a result or a descriptive error, never a panic / crash / timeout",
                                                         "harness": f"parser_h ({fmt} build) pipeline"})
            elif "panic" in gr or "crash" in gr:
                report_violation(ctx, "codegen-panics", {"case": dict(c, op="codegen"), "impl": gr, "format": fmt, "parser_result": str(res)[:300],
                                                        "expected_by_spec": "generated code or a descriptive error, never a panic",
                                                        "harness": f"codegen_h ({fmt} build) codegen"})
            elif (g == "ok") != (k == "ok") and "cfg" in pr:
                note_model_mismatch(ctx, "G/codegen accepts iff parser accepts", dict(c, format=fmt), {"codegen": str(gr)[:300], "parser": str(res)[:300]})


def run(ctx):
    lean_check(ctx, "I18nVerif.Theorems.C09", "C09_")
    lean_check(ctx, "I18nVerif.Theorems.C09Pipeline", "C09_")
    binp = build_parser(ctx)
    if binp is None:
        finish_broken(ctx, "harness does not build")
        write_evidence(ctx, RULE)
        return
    rng = ctx.rng
    # ---- (a) strings through ParsedValue::new
    strings = list(WITNESS_STRINGS)
    n = ctx.budget(12000, 300000)
    for i in range(n):
        r = rng.below(10)
        if r < 6:
            strings.append(gen.soup(rng, 18))
        elif r < 9:
            strings.append(gen.print_src(gen.gen_src(rng)))
        else:
            s = gen.print_src(gen.gen_src(rng))
            strings.append(mutate_file_text(rng, s))
    impl = run_lines_resilient(binp, [{"op": "parse_new", "s": s} for s in strings], timeout=3600)
    model = lean_driver([{"op": "parse.new", "s": s} for s in strings], timeout=3600)
    delims = ("{{", "}}", "<", ">", "$t(")
    for s, a, m in zip(strings, impl, model):
        ctx.seen({"s": s}, nontrivial=any(d in s for d in delims))
        kind = "ok" if "ok" in a else ("err:" + a["err"] if "err" in a else "PANIC")
        ctx.count("string:" + kind)
        if "panic" in a or "crash" in a:
            report_violation(ctx, "parse_new-panics", {"case": {"op": "parse_new", "s": s}, "impl": a,
                                                       "expected_by_spec": "a value or a descriptive error, never a panic", "harness": "parser_h parse_new"})
            continue
        if "panic" in m:
            raise HarnessError("model reaches a panic outcome that the theorem excludes: " + json.dumps(s))
        a2 = {k: v for k, v in a.items() if k != "msg"}
        if a2 != m:
            if has_nonascii_ident_char(s):
                ctx.count("unmodelled_nonascii_ident")
            else:
                note_model_mismatch(ctx, "P/parse_new", {"s": s}, {"impl": a2, "model": m})
    ctx.sample({"string": strings[len(WITNESS_STRINGS) + 1], "impl": impl[len(WITNESS_STRINGS) + 1]})
    # ---- (b) witness projects and (c) generated projects, half of them with malformed file text
    projects = []
    for tree, note in WITNESS_PROJECTS:
        projects.append({"default": "en", "locales": ["en"], "all_locales": ["en"], "namespaces": None, "inherits": {},
                         "files": {(None, "en"): tree}, "extra_cfg": False, "note": note})
    # many alternatives: the generator nests its `EitherOf` wrappers in groups of 15 (+1): ranges with n branches around every multiple
    for nb in (15, 16, 17, 18, 30, 31, 32, 33, 46, 47, 48, 61, 62, 63):
        br = [{"a": [f"b{j} {{{{ count }}}}", {"u": j}]} for j in range(nb - 1)] + [{"a": ["rest {{ count }}"]}]
        projects.append({"default": "en", "locales": ["en"], "all_locales": ["en"], "namespaces": None, "inherits": {},
                         "files": {(None, "en"): {"o": [["many", {"a": ["u8"] + br}], ["manyf", {"a": ["f32"] + [{"a": [f"f{j}", {"f": f"{j}.5"}]} for j in range(nb - 1)] + [{"a": ["rest"]}]}]]}},
                         "extra_cfg": False, "note": f"{nb} branches"})
    for i in range(ctx.budget(1500, 40000)):
        projects.append(proj.gen_project(rng))
    # every shape of `inherits` on 4 locales (chains, forks, cycles, tails leading into a cycle, self-reference) x presence patterns:
    # the walks of `default_of` / `compute` must terminate (the harness dumps both for every key; the generator calls `compute`)
    tails = [q for q in INHERITS_CORPUS if has_tail_into_cycle(q["inherits"])]
    projects += rng.sample(tails, min(len(tails), ctx.budget(150, 3000))) + rng.sample(INHERITS_CORPUS, ctx.budget(150, 3000))
    reqs = []
    for p in projects:
        q = proj.harness_req(p)
        if "note" not in p and rng.chance(1, 3):
            q["files"] = [[f, mutate_file_text(rng, t)] for f, t in q["files"]]
            q["mutated"] = True
        elif "note" not in p and rng.chance(1, 10):
            q["cargo_toml"] = mutate_file_text(rng, q["cargo_toml"])
            q["mutated"] = True
        reqs.append(q)
    impl = run_lines_resilient(binp, reqs, timeout=3600)
    mreqs, idx = [], []
    for i, (p, q, r) in enumerate(zip(projects, reqs, impl)):
        ctx.seen({"files": q["files"], "cfg": q["cargo_toml"]})
        res = r.get("result", r)
        kind = "ok" if "ok" in res else ("err:" + res["err"] if "err" in res else "PANIC")
        ctx.count("project:" + kind)
        if "panic" in r or "crash" in r or "panic" in res:
            report_violation(ctx, "pipeline-panics", {"case": q, "impl": r, "note": p.get("note"),
                                                     "expected_by_spec": "a result or a descriptive error, never a panic / crash / timeout",
                                                     "harness": "parser_h pipeline"})
            continue
        if not q.get("mutated") and "cfg" in r:
            mreqs.append(proj.model_req(p, r))
            idx.append(i)
    model = lean_driver(mreqs, timeout=3600)
    for i, m in zip(idx, model):
        o = {"ci": proj.canon_result(impl[i]["result"]), "cm": proj.canon_result(m)}
        if "panic" in m:
            report_violation(ctx, "model-panic-outcome", {"case": reqs[i], "model": m, "impl": impl[i].get("result"),
                                                         "why": "the model of the pipeline reaches an explicit panic site on this input"})
        compare_model(ctx, "P/pipeline", projects[i], o)
    ctx.sample({"project": reqs[len(WITNESS_PROJECTS)]["files"], "result": str(impl[len(WITNESS_PROJECTS)].get("result"))[:300]})
    # ---- (c') code generation on every project (the generator must not panic on input the parser accepted)
    bing = cargo_build(ctx, "codegen_h")
    if bing is not None:
        greqs = [dict(q, op="codegen") for q in reqs]
        # locale names of every odd kind, as a second locale and as the default one
        for name in ODD_LOCALE_NAMES:
            for dflt, locs in (("en", ["en", name]), (name, [name])):
                greqs.append({"op": "codegen", "odd_locale": name, "cargo_toml": '[package]\nname = "p"\n[package.metadata.leptos-i18n]\ndefault = %s\nlocales = %s\n' % (json.dumps(dflt), json.dumps(locs)),
                              "files": [[f"locales/{l}.json", '{"a": "x"}'] for l in locs]})
        impl = impl + run_lines_resilient(binp, [dict(q, op="pipeline", operands=[]) for q in greqs[len(reqs):]], timeout=600)
        gres = run_lines_resilient(bing, greqs, timeout=3600)
        for q, r, pr in zip(greqs, gres, impl):
            k = "ok" if "ok" in r else ("err" if "err" in r else "PANIC")
            ctx.count("codegen:" + k)
            if "panic" in r or "crash" in r:
                report_violation(ctx, "codegen-panics", {"case": q, "impl": r, "parser_result": str(pr.get("result"))[:300],
                                                        "expected_by_spec": "generated code or a descriptive error, never a panic",
                                                        "harness": "codegen_h codegen"})
            elif ("ok" in r) != ("ok" in pr.get("result", {})) and "cfg" in pr and "odd_locale" not in q:     # (the generator, not the parser, validates locale names)
                note_model_mismatch(ctx, "G/codegen accepts iff parser accepts", q, {"codegen": str(r)[:300], "parser": str(pr.get("result"))[:300]})
    # ---- (c+) the same, through the YAML and JSON5 builds of parser and generator
    formats_stage(ctx, rng)
    # ---- (c'') build helper: parse + every public query on projects incl. odd locale names
    binb = cargo_build(ctx, "build_h")
    if binb is not None:
        odd = []
        for name in ODD_LOCALE_NAMES:
            odd.append({"op": "icu", "work": os.path.join(WORK, "c09b"),
                        "cargo_toml": '[package]\nname = "p"\n[package.metadata.leptos-i18n]\ndefault = "en"\nlocales = ["en", %s]\n' % json.dumps(name),
                        "files": [["locales/en.json", '{"a": "x"}'], [f"locales/{name}.json", '{"a": "y"}']]})
        # configuration corners: an explicitly empty namespace list / locale list, a namespace without any file content
        for extra_cfg, files in (('namespaces = []\n', [["locales/en.json", '{"a": "x"}']]),
                                 ('namespaces = []\nlocales-dir = "locales"\n', []),
                                 ('namespaces = ["only"]\n', [["locales/en/only.json", "{}"], ["locales/fr/only.json", "{}"]])):
            odd.append({"op": "icu", "work": os.path.join(WORK, "c09b"),
                        "cargo_toml": '[package]\nname = "p"\n[package.metadata.leptos-i18n]\ndefault = "en"\nlocales = ["en", "fr"]\n' + extra_cfg,
                        "files": files + [["locales/fr.json", '{"a": "y"}']] if "only" not in extra_cfg else files})
        breqs = odd + [{"op": "icu", "work": os.path.join(WORK, "c09b"), "cargo_toml": q["cargo_toml"], "files": q["files"]} for q in reqs[: ctx.budget(300, 5000)]]
        bres = run_lines_resilient(binb, breqs, timeout=3600)
        for q, r in zip(breqs, bres):
            k = "ok" if "keys" in r else ("err" if "parse_err" in r else "PANIC")
            ctx.count("build_helper:" + k)
            ctx.seen({"build": q["files"], "cfg": q["cargo_toml"]})
            if "panic" in r or "crash" in r or isinstance(r.get("langids"), dict):
                report_violation(ctx, "build-helper-panics", {"case": q, "impl": {k2: v for k2, v in r.items() if k2 != "per_option"},
                                                             "expected_by_spec": "a result or a descriptive error, never a panic",
                                                             "harness": "build_h icu (parse_at_dir, get_icu_keys, get_locales, get_locales_langids)"})
    # ---- (d) deep / long inputs in a subprocess with a timeout (stack depth is linear in the number of interpolations)
    deep = [("interp-chain-2000", "{{a}}" * 2000), ("comp-nest-500", "<b>" * 500 + "x" + "</b>" * 500), ("fk-chain-300", "$t(a)" * 300)]
    for name, s in deep:
        r, crash = run_lines(binp, [{"op": "parse_new", "s": s}], timeout=120)
        ctx.seen({"deep": name})
        if crash is not None or (r and "panic" in r[0]):
            report_violation(ctx, "deep-input:" + name, {"case": {"op": "parse_new", "s_len": len(s), "shape": name}, "impl": crash or r[0]})
    # deeply nested subkeys / sequences in the three formats: an error (all three stop at 128 levels: serde_json and serde_yaml on their own,
    # JSON5 through the limit of the locale seeds, C09-json5-depth) — never a crash
    for fmt in ("json", "yaml", "json5"):
        bf = build_parser(ctx, fmt)
        if bf is None:
            continue
        for depth in (127, 129, 3000, 20000):
            for shape, text in (("objects", '{"k": ' * depth + '"x"' + "}" * depth), ("sequences", '{"k": ' + "[" * depth + "1" + "]" * depth + "}")):
                q = {"op": "pipeline", "cargo_toml": '[package]\nname = "p"\n[package.metadata.leptos-i18n]\ndefault = "en"\nlocales = ["en"]\n',
                     "files": [[f"locales/en.{proj.EXT[fmt]}", text]], "operands": []}
                r, crash = run_lines(bf, [q], timeout=300)
                ctx.seen({"deep": f"{fmt}:{shape}:{depth}"})
                ctx.count("deep_nesting:" + fmt)
                if crash is not None or (r and "panic" in r[0]):
                    report_violation(ctx, f"deep-input:{fmt}-nested-{shape}-{depth}", {"case": {"op": "pipeline", "format": fmt, "shape": f"{depth} nested {shape}"},
                                                                                       "impl": crash or r[0], "harness": f"parser_h ({fmt} build) pipeline"})
    # known finding C09-json5-pest: the third-party JSON5 reader itself (its pest grammar) recurses once per nesting level before any of this
    # library's code sees the data
    bf = build_parser(ctx, "json5")
    if bf is not None:
        depth = 200000
        q = {"op": "pipeline", "cargo_toml": '[package]\nname = "p"\n[package.metadata.leptos-i18n]\ndefault = "en"\nlocales = ["en"]\n',
             "files": [["locales/en.json5", '{"k": ' * depth + '"x"' + "}" * depth]], "operands": []}
        r, crash = run_lines(bf, [q], timeout=300)
        if crash is not None:
            report_violation(ctx, "stack-overflow:json5-reader-nesting-200000", {"case": {"op": "pipeline", "format": "json5", "shape": "200000 nested objects (1.4 MB)"}, "impl": crash})
    # known finding F8: recursion depth linear in the number of interpolations meets a finite stack
    s = "{{a}}" * 40000
    r, crash = run_lines(binp, [{"op": "parse_new", "s": s}], timeout=300)
    if crash is not None:
        report_violation(ctx, "stack-overflow:interp-chain-40000", {"case": {"op": "parse_new", "shape": "'{{a}}' * 40000"}, "impl": crash})
    ctx.assumptions += PARSER_ASSUMPTIONS + ["stack exhaustion is runtime behaviour the model cannot exhibit: only a linear recursion-depth bound is proved"]
    finish_broken(ctx, f"{len(strings)} strings and {len(projects)} projects, every one checked for panic/crash/timeout")
    write_evidence(ctx, RULE)
