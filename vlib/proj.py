"""Translation-project generator, file printers (JSON / JSON5 / YAML), transport of decoded trees to the
Lean driver, canonicalisation of pipeline results."""
import json
import re
from . import gen

LOCALE_POOL = ["en", "fr", "de", "en-US", "fr-CA", "ru", "ar", "ja", "pl", "cy", "es", "pt-BR"]
KEY_POOL = ["title", "msg", "k1", "k2", "hello_world", "x-y", "greeting", "items", "label", "text", "note", "info"]
GROUP_POOL = ["sub", "grp", "menu", "page"]
NS_POOL = ["common", "home", "admin"]
FORMS = ["zero", "one", "two", "few", "many", "other"]
INT_TYPES = ["i8", "i16", "i32", "i64", "u8", "u16", "u32", "u64"]
FLOAT_TYPES = ["f32", "f64"]

# ---- decoded-tree transport (see lean/Driver/Pipeline.lean `toJ`) -------------------------------

def U(n): return {"u": n}
def I(n): return {"i": n}
def F(text): return {"f": text}
def A(l): return {"a": l}
def O(pairs): return {"o": [[k, v] for k, v in pairs]}


def num(n):
    return U(n) if n >= 0 else I(n)


def emit_json(j, indent=None):
    if j is None:
        return "null"
    if isinstance(j, bool):
        return "true" if j else "false"
    if isinstance(j, str):
        return json.dumps(j, ensure_ascii=False)
    if "u" in j:
        return str(j["u"])
    if "i" in j:
        return str(j["i"])
    if "f" in j:
        return j["f"]
    if "a" in j:
        return "[" + ", ".join(emit_json(x) for x in j["a"]) + "]"
    return "{" + ", ".join(json.dumps(k, ensure_ascii=False) + ": " + emit_json(v) for k, v in j["o"]) + "}"


def emit_yaml(j, ind=0):
    """block-style YAML for objects, flow style (JSON-compatible) for everything else"""
    if isinstance(j, dict) and "o" in j:
        if not j["o"]:
            return "{}"
        pad = "  " * ind
        lines = []
        for k, v in j["o"]:
            key = json.dumps(k, ensure_ascii=False)
            if isinstance(v, dict) and "o" in v and v["o"]:
                lines.append(f"{pad}{key}:\n{emit_yaml(v, ind + 1)}")
            else:
                lines.append(f"{pad}{key}: {emit_yaml(v, ind + 1)}")
        return "\n".join(lines)
    return emit_json(j)


def emit_file(j, fmt):
    if fmt == "yaml":
        return emit_yaml(j) + "\n"
    return emit_json(j) + "\n"     # JSON text is valid JSON5


EXT = {"json": "json", "yaml": "yaml", "json5": "json5"}

REAL_LIMITS = {"i8": (-128, 127), "u8": (0, 255), "i16": (-2 ** 15, 2 ** 15 - 1), "u16": (0, 2 ** 16 - 1), "i32": (-2 ** 31, 2 ** 31 - 1), "u32": (0, 2 ** 32 - 1)}
FORCE_FALLBACK = False     # probe crates: integer ranges must be exhaustive for rustc

# ---- value generators ---------------------------------------------------------------------------

def gen_range_spec(rng, ty, allow_fallback=True):
    """one count specification as text + python-side meaning is not needed (Lean spec evaluates)"""
    isf = ty in FLOAT_TYPES
    lo, hi = {"i8": (-128, 127), "u8": (0, 255), "i16": (-300, 300), "u16": (0, 600), "i32": (-50, 50), "u32": (0, 100),
              "i64": (-50, 50), "u64": (0, 100), "f32": (-8, 8), "f64": (-8, 8)}[ty]

    def n():
        v = rng.range(lo, hi)
        if ty in REAL_LIMITS and rng.chance(1, 40):
            # a number that does not fit the range type (rejected whatever the file format: RangeNumberType / RangeParse)
            tlo, thi = REAL_LIMITS[ty]
            v = rng.pick([thi + rng.range(1, 1000), tlo - rng.range(1, 1000), thi + 1, tlo - 1])
        if isf and rng.chance(1, 2):
            # f64: also decimals that are not exactly representable (their f32 neighbours are other numbers)
            return f"{v}.{rng.pick(['5', '25', '75', '0', '125'] + (['1', '3', '7'] if ty == 'f64' else []))}"
        return str(v)
    w = lambda: rng.pick(["", "", " "])
    k = rng.below(10)
    if k < 3:
        return n()
    if k < 7:
        a, b = n(), n()
        if float(a) > float(b) and not rng.chance(1, 40):
            a, b = b, a
        if float(a) == float(b) and k < 5 and not rng.chance(1, 30):
            b = str(int(float(b)) + 1)
        return f"{a}{w()}..{w()}{b}" if k < 5 else f"{a}{w()}..={w()}{b}"
    if k == 7:
        return f"{w()}..{rng.pick(['', '='])}{n()}"
    if k == 8:
        return f"{n()}..{w()}"
    return " | ".join(gen_range_spec(rng, ty, False) for _ in range(rng.range(2, 3)))


def gen_ranges(rng, strings, ty="?", count_name=None):
    """a range declaration in either syntax; `strings(rng)` makes branch values"""
    if ty == "?":
        ty = rng.weighted([(6, None), (2, "i8"), (2, "u8"), (1, "i16"), (1, "u16"), (1, "i32"), (1, "u32"), (1, "i64"), (1, "u64"), (2, "f32"), (2, "f64")])
    eff = ty or "i32"
    isf = eff in FLOAT_TYPES
    items = []
    if ty is not None:
        items.append(ty)
    nb = rng.range(1, 4)
    fallback = isf or FORCE_FALLBACK or rng.chance(2, 3)
    for i in range(nb):
        spec_n = rng.weighted([(5, 1), (3, 2), (2, 3), (1, 4)])      # count lists with three and more alternatives too
        specs = [gen_range_spec(rng, eff) for _ in range(spec_n)]
        val = strings(rng)
        if rng.chance(1, 2):
            # sequence syntax [value, count...]; numbers may be written as numbers
            cs = []
            if i < nb - 1 and rng.chance(1, 25):
                specs = specs + [rng.pick(["_", ".."])]      # a fallback among the alternatives of a branch that is not the last: InvalidFallback
            for s in specs:
                if s.lstrip("-").isdigit() and rng.chance(1, 2):
                    cs.append(num(int(s)))
                elif isf and s.replace(".", "", 1).lstrip("-").isdigit() and "." in s and rng.chance(1, 3):
                    cs.append(F(s))
                else:
                    cs.append(s)
            items.append(A([val] + cs))
        else:
            c = specs[0] if len(specs) == 1 else A(specs)
            if isinstance(c, str) and c.lstrip("-").isdigit() and rng.chance(1, 3):
                c = num(int(c))
            pairs = [("count", c), ("value", val)]
            if rng.chance(1, 4):
                pairs.reverse()
            items.append(O(pairs))
    if isf and rng.chance(1, 3):
        # an exact value declared *after* a branch whose bounds contain it: the earlier branch wins (first match)
        earlier = [x for it in items[1 if ty is not None else 0:] for x in _NUM.findall(json.dumps(it)) if "." in x]
        if earlier:
            items.append(A([strings(rng), rng.pick(earlier)]))
    if fallback:
        val = strings(rng)
        k = rng.below(4)
        if k == 0:
            items.append(A([val]))
        elif k == 1:
            items.append(A([val, "_"]))
        elif k == 2:
            items.append(O([("value", val)]))
        else:
            items.append(O([("count", ".."), ("value", val)]))
    return A(items)


class Plan:
    """what a key is in the default locale, so other locales can be compatible (or deliberately not)"""
    def __init__(self, kind, **kw):
        self.kind = kind
        self.__dict__.update(kw)


def branch_string(vars_):
    def f(rng):
        return gen.print_src(gen.gen_src(rng, depth=1, maxn=3, comps=rng.chance(1, 3), fmts=False, vars_=vars_ + ["count"]))
    return f


def gen_key_value(rng, plan, locale_is_default, all_paths, rec=None):
    """value of one key for one locale according to the plan; `rec` receives what was generated"""
    k = plan.kind
    if k == "string":
        src = gen.gen_src(rng, maxn=4, vars_=plan.vars)
        if rec is not None:
            rec["src"] = src
        return gen.print_src(src)
    if k == "lit":
        lk = getattr(plan, "lit_kind", "mixed")
        if lk == "mixed":
            lk = rng.pick(["u", "i", "f", "b", "s"])
        if lk == "u":
            return U(rng.pick([rng.range(0, 99), 0, 18446744073709551615]))
        if lk == "i":
            return I(-rng.pick([rng.range(1, 99), 9223372036854775808]))
        if lk == "f":
            # integral and very large / small floats too: their Display and Debug forms differ
            return F(rng.pick(["1.5", "0.25", "10.0", "-2.5", "2.0", "10000000000000000.0", "0.00001", "-0.5"]))
        if lk == "b":
            return rng.chance(1, 2)
        return "plain"
    if k == "ranges":
        return gen_ranges(rng, branch_string(plan.vars), ty=plan.ty)
    if k == "fk":
        return plan.text
    return "?"


def gen_fk_text(rng, targets, args_for, chosen=None):
    """`$t(path, {args})` possibly surrounded by text; `chosen` receives the target path, its plan and the arguments"""
    path, tplan = rng.pick(targets)
    args = args_for(rng, tplan)
    if chosen is not None:
        chosen.update(path=path, plan=tplan, args=args)
    w = lambda: rng.pick(["", "", " "])
    if args is None:
        inner = f"$t({w()}{path}{w()})"
    else:
        inner = f"$t({w()}{path}{w()},{w()}{json.dumps(args, ensure_ascii=False)}{w()})"
    pre = rng.pick(["", "", "see: ", "{{ z }} "])
    post = rng.pick(["", "", "!", " {{ z }}"])
    return pre + inner + post


def default_args(rng, tplan):
    if tplan.kind in ("ranges", "plural"):
        r = rng.below(7)
        if r == 0:
            return None
        if r in (1, 5, 6):
            a = {"count": rng.pick([0, 1, 2, 5, 21, -1, 1.5])}
            if r == 6:
                a["x"] = "X{{ y }}"
            return a
        if r == 2:
            return {"count": "{{ n }}"}
        if r == 3:
            return {"count": " {{ total }} ", "x": "lit"}
        return {"x": "X{{ y }}"}
    if tplan.kind == "string":
        if not tplan.vars or rng.chance(1, 3):
            return None if rng.chance(1, 2) else {}
        a = {}
        for v in tplan.vars:
            if rng.chance(2, 3):
                a[v] = rng.pick(["lit", 5, True, "{{ other }}", "a <b>bold</b>", -3, 2.5])
        return a
    return None


def gen_locale_tree(rng, plans, locale, is_default, opts, depth=0, meta=None, ns=None, prefix=()):
    """an object for one locale following `plans` (ordered list of (key, Plan)); `meta[(ns, locale, path)]`
    records what each key is (kind, source AST, presence)"""
    pairs = []
    meta = meta if meta is not None else {}
    for key, plan in plans:
        path = prefix + (key,)
        rec = {"kind": plan.kind, "presence": "defined"}
        meta[(ns, locale, path)] = rec
        if not is_default:
            r = rng.below(20)
            if r < 2 and not (getattr(plan, "pinned", False) and not rng.chance(1, 10)):
                rec["presence"] = "absent"
                continue                 # absent
            if r < 4 and plan.kind != "plural":
                rec["presence"] = "null"
                pairs.append((key, None))    # explicit null
                continue
        if plan.kind == "group":
            if not is_default and rng.chance(1, 20):
                # an empty object where the default locale has a group: every key of the group is missing here
                rec["presence"] = "empty-group"
                pairs.append((key, O([])))
            elif not is_default and rng.chance(1, 25) and opts.get("mismatch", True):
                rec["kind"] = "mismatch"
                pairs.append((key, "a value where subkeys are expected"))
            else:
                pairs.append((key, gen_locale_tree(rng, plan.children, locale, is_default, opts, depth + 1, meta, ns, path)))
        elif plan.kind == "plural":
            forms = list(plan.forms) if is_default else [f for f in FORMS if f == "other" or rng.chance(1, 2)]
            infix = "_ordinal" if plan.ordinal else ""
            rec["forms"] = {}
            rec["ordinal"] = plan.ordinal
            ft = (opts.get("_form_targets") or {}).get(ns) or []
            for f in forms:
                src = gen.gen_src(rng, maxn=3, comps=False, fmts=False, vars_=plan.vars + ["count"])
                rec["forms"][f] = src
                text = gen.print_src(src)
                if not is_default and f != "other" and rng.chance(1, 12) and opts.get("null_forms", True):
                    # a form explicitly nulled: not a form at all (the other forms still make the plural, or not)
                    pairs.append((f"{key}{infix}_{f}", None))
                    continue
                if ft and rng.chance(1, 6):
                    # a reference inside a plural form (any form, `other` included; cardinal and ordinal)
                    text = rng.pick([text + " $t(" + rng.pick(ft) + ")", "$t(" + rng.pick(ft) + ") " + text])
                    rec["fk_in_form"] = True
                pairs.append((f"{key}{infix}_{f}", text))
        elif not is_default and rng.chance(1, 40) and opts.get("mismatch", True):
            # the other direction: a group where the default locale has a value
            rec["kind"] = "mismatch"
            pairs.append((key, O([("inner", "a group where a value is expected")])))
        else:
            p = plan
            if not is_default and rng.chance(1, 8) and opts.get("mixed", True):
                # another kind in this locale
                p = Plan(rng.pick(["string", "lit"]), vars=getattr(plan, "vars", ["x"]))
                rec["kind"] = p.kind
            val = gen_key_value(rng, p, is_default, None, rec)
            rec["value"] = val
            pairs.append((key, val))
    if not is_default and rng.chance(1, 5) and opts.get("surplus", True):
        sk = rng.pick(["extra", "zzz", "only_here"])
        meta[(ns, locale, prefix + (sk,))] = {"kind": "surplus", "presence": "defined"}
        pairs.append((sk, "surplus"))
    if opts.get("shuffle", True):
        pairs = rng.shuffle(pairs)
    return O(pairs)


def gen_plans(rng, depth=0, opts=None):
    plans = []
    keys = rng.sample(KEY_POOL, rng.range(2, 6))
    for key in keys:
        r = rng.below(20)
        if opts and opts.get("range_heavy") and rng.chance(1, 2):
            r = 12                                   # mostly ranges (C04's probe crates)
        vs = rng.sample(gen.VAR_NAMES[:6], rng.range(0, 2))
        if r < 9:
            plans.append((key, Plan("string", vars=vs or ["x"])))
        elif r < 11:
            # one literal type for the key in every locale (two times out of three), else a type per locale
            plans.append((key, Plan("lit", lit_kind=rng.pick(["u", "i", "f", "f", "b", "s", "mixed", "mixed", "mixed"]))))
        elif r < 14:
            plans.append((key, Plan("ranges", vars=vs, ty=rng.weighted([(5, None), (1, "i8"), (1, "u8"), (1, "u64"), (1, "i64"), (2, "f32"), (1, "f64"), (1, "u16")]))))
        elif r < 17:
            forms = [f for f in FORMS if f == "other" or rng.chance(1, 2)]
            if len(forms) == 1:
                forms = ["one", "other"]
            plans.append((key, Plan("plural", forms=forms, ordinal=rng.chance(1, 4), vars=vs)))
        else:
            plans.append((key, Plan("string", vars=vs or ["x"])))
    if depth < 2 and rng.chance(1, 2):
        g = rng.pick(GROUP_POOL)
        # one group in ten is empty (`"menu": {}`): still a key of the reference key set
        plans.append((g, Plan("group", children=[] if rng.chance(1, 10) else gen_plans(rng, depth + 1, opts))))
    return plans


def flat_targets(plans, prefix=""):
    out = []
    for key, plan in plans:
        path = prefix + key
        if plan.kind == "group":
            out += flat_targets(plan.children, path + ".")
        else:
            out.append((path, plan))
    return out


def gen_project(rng, opts=None):
    opts = dict(opts or {})
    nloc = rng.range(1, 4)
    locales = list(opts["locales"]) if "locales" in opts else rng.sample(opts.get("locale_pool", LOCALE_POOL), nloc)
    default = locales[0] if rng.chance(3, 4) else rng.pick(locales)
    listed = list(locales)
    if rng.chance(1, 6) and len(listed) > 1:
        listed.remove(default)           # default not listed
    listed = rng.shuffle(listed)
    namespaces = None
    if rng.chance(1, 4):
        namespaces = rng.sample(NS_POOL, rng.range(1, 2))
    inherits = {}
    for l in locales:
        if l != default and rng.chance(1, 3) and len(locales) > 1:
            tgt = rng.pick([x for x in locales if x != l] or [default])
            inherits[l] = tgt
    if opts.get("chain") and len(locales) >= 3:
        nd = [l for l in locales if l != default]
        inherits.pop(nd[0], None)
        inherits[nd[1]] = nd[0]          # at least one locale inherits from a non-default one
    files = {}
    all_plans = {}
    for ns in (namespaces or [None]):
        plans = gen_plans(rng, 0, opts)
        # foreign keys to keys of this (or another) namespace
        if opts.get("fk", True) and rng.chance(2, 3):
            targets = flat_targets(plans)
            nfk = rng.range(1, 3)
            for i in range(nfk):
                if not targets:
                    break
                def args_for(r, tp): return default_args(r, tp)
                tpath_targets = [((ns + ":" + p) if ns else p, tp) for p, tp in targets]
                if ns is None and False:
                    pass
                chosen = {}
                text = gen_fk_text(rng, tpath_targets, args_for, chosen)
                for tp_path, tp in tpath_targets:
                    if tp_path in text:
                        tp.pinned = True
                key = f"ref{i}"
                plans.append((key, Plan("fk", text=text, vars=["z"], target=chosen["path"], target_plan=chosen["plan"], ns=ns)))
                if rng.chance(1, 2):
                    # chains: a later reference may name this one, with arguments for the variables that the *inner* target
                    # still has (they are reachable only through this reference)
                    inner_vars = [v for v in (getattr(chosen["plan"], "vars", None) or []) if v not in (chosen["args"] or {})]
                    targets.append((key, Plan("string", vars=["z"] + inner_vars)))
        all_plans[ns] = plans
    # effective locale order as the implementation will use it is computed by the config model
    meta = {}
    if opts.get("fk", True):
        # top-level keys written as plain strings in every plan: possible targets of references placed inside plural forms
        opts["_form_targets"] = {ns: [((ns + ":") if ns else "") + k for k, pl in all_plans[ns] if pl.kind == "string" and "-" not in k][:3]
                                 for ns in (namespaces or [None])}
    for ns in (namespaces or [None]):
        for l in sorted(set(locales)):
            files[(ns, l)] = gen_locale_tree(rng, all_plans[ns], l, l == default, opts, 0, meta, ns, ())
    if opts.get("fk", True):
        retarget_counts(rng, all_plans, files, default)
    return {"meta": meta, "plans": all_plans, "default": default, "locales": listed, "all_locales": sorted(set(locales)), "namespaces": namespaces,
            "inherits": inherits, "files": files, "extra_cfg": rng.chance(1, 4)}


_NUM = re.compile(r"-?\d+(?:\.\d+)?")


def range_bounds(tree):
    """every number written in the count specifications of a range declaration (transport tree)"""
    out = []

    def spec(c):
        if isinstance(c, str):
            out.extend(_NUM.findall(c))
        elif isinstance(c, dict) and ("u" in c or "i" in c):
            out.append(str(c.get("u", c.get("i"))))
        elif isinstance(c, dict) and "f" in c:
            out.append(c["f"])
        elif isinstance(c, dict) and "a" in c:
            for x in c["a"]:
                spec(x)
    for item in (tree.get("a") or []) if isinstance(tree, dict) else []:
        if isinstance(item, dict) and "a" in item:
            for c in item["a"][1:]:
                spec(c)
        elif isinstance(item, dict) and "o" in item:
            for k, v in item["o"]:
                if k == "count":
                    spec(v)
    return out


def transport_get(tree, path):
    for k in path:
        if not (isinstance(tree, dict) and "o" in tree):
            return None
        tree = next((v for kk, v in tree["o"] if kk == k), None)
    return tree


def transport_replace(tree, old, new):
    if isinstance(tree, str):
        return new if tree == old else tree
    if isinstance(tree, dict) and "o" in tree:
        return {"o": [[k, transport_replace(v, old, new)] for k, v in tree["o"]]}
    return tree


def retarget_counts(rng, all_plans, files, default):
    """literal counts given to a range through `$t(.., {"count": n})` are moved onto / next to a bound of one of the target's
    branches (as declared in the default locale) two times out of three: branch selection at the bounds is where it can go wrong"""
    from fractions import Fraction
    for ns, plans in all_plans.items():
        for key, plan in plans:
            if plan.kind != "fk" or getattr(plan.target_plan, "kind", None) != "ranges":
                continue
            m = re.search(r'"count": (-?\d+(?:\.\d+)?)([,}])', plan.text)
            if not m or not rng.chance(2, 3):
                continue
            tpath = plan.target.split(":")[-1].split(".")
            tns = plan.target.split(":")[0] if ":" in plan.target else ns
            tv = transport_get(files.get((tns, default)), tpath)
            bounds = range_bounds(tv) if tv is not None else []
            if not bounds:
                continue
            b = rng.pick(bounds)
            if plan.target_plan.ty in FLOAT_TYPES:
                q = Fraction(b) + rng.pick([0, 0, 0, Fraction(1, 2), -Fraction(1, 2), Fraction(1, 4)])
                new = "0.0" if q == 0 else repr(float(q))
                if "e" in new or Fraction(new) != q:
                    continue
            else:
                if "." in b:
                    continue
                new = str(int(b) + rng.pick([0, 0, 0, 1, -1]))
            text2 = plan.text[:m.start(1)] + new + plan.text[m.end(1):]
            for fk, tree in list(files.items()):
                files[fk] = transport_replace(tree, plan.text, text2)
            plan.text = text2


def cargo_toml(p, rng=None):
    lines = ['[package]', 'name = "proj"', 'version = "0.1.0"', '', '[package.metadata.leptos-i18n]']
    lines.append(f'default = {json.dumps(p["default"])}')
    lines.append("locales = [" + ", ".join(json.dumps(l) for l in p["locales"]) + "]")
    if p.get("namespaces") is not None:
        lines.append("namespaces = [" + ", ".join(json.dumps(n) for n in p["namespaces"]) + "]")
    if p.get("locales_dir"):
        lines.append("locales-dir = " + json.dumps(p["locales_dir"]))
    if p.get("extra_cfg"):
        lines.append('some-unknown-field = "ignored"')
    if p.get("inherits"):
        lines.append("inherits = { " + ", ".join(f"{json.dumps(k)} = {json.dumps(v)}" for k, v in p["inherits"].items()) + " }")
    lines += ['', '[dependencies]', '']
    return "\n".join(lines)


def file_ext(p, fmt, ns, l):
    """YAML files may be named `.yaml` or `.yml`: projects carrying `yml` (a set of (namespace, locale)) use the second for those"""
    if fmt == "yaml" and (ns, l) in (p.get("yml") or ()):
        return "yml"
    return EXT[fmt]


def file_list(p, fmt="json"):
    out = []
    for (ns, l), tree in p["files"].items():
        ext = file_ext(p, fmt, ns, l)
        d = p.get("locales_dir") or "locales"
        d = d[2:] if d.startswith("./") else d
        rel = f"{d}/{l}/{ns}.{ext}" if ns else f"{d}/{l}.{ext}"
        out.append([rel, emit_file(tree, fmt)])
    return sorted(out)


def literal_operands(p):
    """literal counts occurring in foreign-key args: the plural-category oracle must cover them"""
    ops = set()
    pat = re.compile(r'"(?:\s|\\t|\\n)*count(?:\s|\\t|\\n)*"\s*:\s*(-?[0-9][0-9.]*)')

    def walk(j):
        if isinstance(j, str):
            for tok in pat.findall(j):
                if tok in ("-", "."):
                    continue
                if "." in tok:
                    ops.add("f:" + tok.rstrip("0").rstrip("."))
                elif tok.startswith("-"):
                    ops.add("i:" + tok)
                else:
                    ops.add("u:" + tok)
        elif isinstance(j, dict):
            for v in (j.get("a") or []):
                walk(v)
            for kv in (j.get("o") or []):
                walk(kv[1])
    for t in p["files"].values():
        walk(t)
    return sorted(ops)


def harness_req(p, fmt="json"):
    return {"op": "pipeline", "cargo_toml": cargo_toml(p), "files": file_list(p, fmt), "operands": literal_operands(p)}


def model_req(p, hresp, suppress=False):
    """the model runs on the configuration as decoded by the implementation (C19 checks that step separately)
    and on the CLDR oracle tables computed by the harness"""
    cfg = hresp.get("cfg")
    if cfg is None:
        return None
    files = [[ns, l, tree] for (ns, l), tree in p["files"].items()]
    return {"op": "pipeline.run", "cfg": {"default": cfg["default"], "locales": cfg["locales"], "namespaces": cfg["namespaces"],
                                           "inherits": cfg["inherits"]},
            "files": files, "oracle": hresp["oracle"], "suppress": suppress}


# ---- canonicalisation ---------------------------------------------------------------------------

def _js(x):
    return json.dumps(x, sort_keys=True, ensure_ascii=False)


def canon_iol(v):
    if "lit" in v:
        return v
    k = v["interpol"]
    return {"interpol": {"comps": sorted(k["comps"]),
                         "vars": sorted(([n, {"fmts": sorted(i["fmts"], key=_js), "count": i["count"]}] for n, i in k["vars"]), key=_js)}}


def canon_bki(b):
    out = []
    for k, lv in b:
        if lv["v"] == "value":
            d = lv["defaults"]
            out.append([k, {"v": "value", "value": canon_iol(lv["value"]),
                            "compute": sorted(([a, sorted(l)] for a, l in d["compute"]), key=_js),
                            "effective": sorted(d.get("effective", []), key=_js)}])
        else:
            out.append([k, {"v": "subkeys", "locales": lv["locales"], "keys": canon_bki(lv["keys"])}])
    return sorted(out, key=lambda e: e[0])


def canon_result(r):
    """result of the pipeline (impl or model) in comparable form"""
    if "ok" in r:
        o = r["ok"]
        return {"ok": {"namespaced": o["namespaced"],
                       "nss": [{"key": ns["key"], "locales": ns["locales"], "keys": canon_bki(ns["keys"])} for ns in o["nss"]],
                       "warnings": sorted(o["warnings"], key=_js)}}
    if "err" in r:
        return {"err": r["err"]}
    return {"panic": True}


def first_diff(a, b, path=""):
    if type(a) != type(b):
        return f"{path}: {_js(a)[:200]} != {_js(b)[:200]}"
    if isinstance(a, dict):
        for k in sorted(set(a) | set(b)):
            if k not in a or k not in b:
                return f"{path}.{k}: missing on one side"
            d = first_diff(a[k], b[k], path + "." + k)
            if d:
                return d
        return None
    if isinstance(a, list):
        if len(a) != len(b):
            return f"{path}: length {len(a)} != {len(b)}: {_js(a)[:300]} != {_js(b)[:300]}"
        for i, (x, y) in enumerate(zip(a, b)):
            d = first_diff(x, y, f"{path}[{i}]")
            if d:
                return d
        return None
    return None if a == b else f"{path}: {_js(a)[:200]} != {_js(b)[:200]}"
