"""C12 — locale negotiation honours the order of preference.
Theorems: lean/I18nVerif/Theorems/C12.lean.  Correspondence: harness runtime_h (`negotiate`) vs
the Lean model `Langid.filterMatches/findMatch`; property oracle `Spec.acceptable` evaluated by the
Lean driver on the implementation's answer."""
import itertools
from .common import *

SETS = ["A", "B", "C", "D"]
RULE = ("request lists over a closed universe of language tags built from each locale set's own subtags plus "
        "foreign ones (exhaustive up to length 3 in the thorough tier), random BCP-47-ish and malformed strings, entries with ASCII white space before / after the tag, "
        "random sub-lists/orders of the supported locales; non-trivial = at least one parseable request and at "
        "least one supported locale matched by some request; distinct = distinct (set, avail, accepted) triples")
INVALID = ["", "!!", "e", "en-", "-US", "en--US", "toolonglanguage", "en-US-", "en_US!", "12", "é", "en-Latn-US-x", "*"]


def universe(locs, rng):
    """24 tags: the set's names, plus recombinations of their subtags and foreign ones."""
    names = [l["name"] for l in locs]
    langs = sorted({l["langid"]["l"] for l in locs if l["langid"]["l"]}) + ["xx"]
    regs = sorted({l["langid"]["r"] for l in locs if l["langid"]["r"]}) + ["ZZ"]
    scrs = sorted({l["langid"]["s"] for l in locs if l["langid"]["s"]})
    vars_ = sorted({v for l in locs for v in l["langid"]["v"]})
    u = list(names)
    for la in langs:
        u.append(la)
        for r in regs:
            u.append(f"{la}-{r}")
        for s in scrs:
            u.append(f"{la}-{s}")
            for r in regs[:2]:
                u.append(f"{la}-{s}-{r}")
        for v in vars_:
            u.append(f"{la}-{v}")
            u.append(f"{la}-{regs[0]}-{v}")
    u += ["und", "und-" + regs[0]]
    seen, out = set(), []
    for t in u:
        if t not in seen:
            seen.add(t)
            out.append(t)
    head = out[:len(names)]
    rest = rng.shuffle(out[len(names):])
    return (head + rest)[:24]


def spaced(rng, t):
    """an entry as a header list may hand it over: white space before and / or after the tag"""
    if not rng.chance(1, 6):
        return t
    return rng.pick(["", " ", "\t", "  "]) + t + rng.pick([" ", "\t", " \t ", "", "\n"])


def langid_of_name(name):
    """language[-Script][-REGION][-variant]* of a well-formed name (None when it is not of that shape)"""
    import re
    parts = name.split("-")
    if not re.fullmatch(r"[A-Za-z]{2,3}|[A-Za-z]{5,8}", parts[0]):
        return None
    out = {"l": parts[0].lower(), "s": None, "r": None, "v": []}
    i = 1
    if i < len(parts) and re.fullmatch(r"[A-Za-z]{4}", parts[i]):
        out["s"] = parts[i].title()
        i += 1
    if i < len(parts) and re.fullmatch(r"[A-Za-z]{2}|[0-9]{3}", parts[i]):
        out["r"] = parts[i].upper()
        i += 1
    for v in parts[i:]:
        if not re.fullmatch(r"[A-Za-z0-9]{5,8}|[0-9][A-Za-z0-9]{3}", v):
            return None
        out["v"].append(v.lower())
    out["v"].sort()
    if out["l"] == "und":
        out["l"] = None
    return out


def canon_langid(d):
    low = lambda x: x.lower() if isinstance(x, str) else x
    return (low(d["l"]) or None, low(d["s"]), low(d["r"]), sorted(low(v) for v in d["v"]))


def intern_all(objs):
    table = {}

    def at(x):
        if x is None:
            return None
        return table.setdefault(x.lower(), len(table) + 1)

    def conv(l):
        return {"l": at(l["l"]), "s": at(l["s"]), "r": at(l["r"]), "v": [at(v) for v in l["v"]]}
    return conv


def through_contexts(ctx, rng):
    """the same negotiation as the callers run it: the request's language list handed to a main context (`fetch_locale`) and to
    `resolve_locale_with_options` (`get_accepted_locale`) with no cookie — harness ctx_h, judged by C15's evaluation (specification
    `Langid.Spec.acceptable` on the chosen locale)"""
    from . import c15
    st = c15.setup(ctx)
    if st is None:
        return
    binr, names, avail, table, idx, inter = st
    langs = sorted({n.split("-")[0] for n in names})
    uni = list(names) + langs + [f"{la}-{r}" for la in langs for r in ("CH", "AT", "GB", "BE", "FR", "MX")] + ["es", "es-MX", "xx", "it-IT", "*"]
    headers = []
    for _ in range(ctx.budget(700, 12000)):
        k = rng.weighted([(3, 1), (5, 2), (5, 3), (2, 4)])
        tags = [rng.pick(uni) for _ in range(k)]
        q, parts = 1.0, []
        for t in tags:
            parts.append(t if q == 1.0 and rng.chance(1, 2) else f"{t};q={q:.1f}")
            if rng.chance(2, 3):
                q = max(0.1, q - 0.1)
        headers.append(rng.pick([", ", ","]).join(parts))
    # the shapes the two callers could get wrong on their own: an earlier entry with only a less specific match before an entry spelled like a
    # locale name; an entry matching the default locale before one matching another locale
    headers += ["fr-CH, en;q=0.5", "de-AT, fr, en", "es-MX, de-CH, fr", "en, fr;q=0.5", "en-GB,en;q=0.9,fr;q=0.8", "es, en-US, de", "en-US, fr", "xx, en, de"]
    need = sorted({t for h in headers for t in set(c15.leptos_use_entries(h)) | {e.strip(" \t\n\x0c\r") for e in c15.leptos_use_entries(h)} | set(c15.rfc_entries(h))} - set(table))
    if need:
        (parsed,), _ = run_lines(binr, [{"op": "parse_tags", "tags": need}])
        for t, pp in zip(need, parsed["parsed"]):
            table[t] = inter.conv(pp)
    cases = [{"kind": kind, "cookie_header": None, "enable_cookie": True, "cookie_name": None, "accept_language": h, "parent": None, "initial": None,
              "_cookie": "absent", "_name": "default-name"} for h in headers for kind in ("root", "fn")]
    for (c, r, m, spec_bad, model_bad) in c15.evaluate(ctx, binr, names, avail, table, idx, cases):
        ctx.seen({"through_context": c["kind"], "accept_language": c["accept_language"]}, nontrivial=True)
        ctx.count("through_context:" + c["kind"])
        if spec_bad:
            report_violation(ctx, "negotiation:through-context", {
                "case": c15.strip_meta(c), "chosen": r["locale"], "expected_by_spec": names[m["spec"]], "accepted_languages_seen": r["accepted_seen"],
                "why": "the initial locale of a context without cookie is the negotiated one: order of preference, exactness, support",
                "harness": "ctx_h resolve (" + ("init_i18n_context" if c["kind"] == "root" else "resolve_locale_with_options") + ")"})
        elif model_bad and not any(b["name"] == "R/resolve-through-context:" + model_bad for b in ctx.broken):
            ctx.broken.append({"kind": "correspondence", "name": "R/resolve-through-context:" + model_bad, "detail": {"case": c15.strip_meta(c), "impl": r, "model": m}})


def run(ctx):
    proofs_ok = lean_check(ctx, "I18nVerif.Theorems.C12", "C12_")
    binr = cargo_build(ctx, "runtime_h")
    if binr is None:
        finish_broken(ctx, "harness does not build; nothing could be run")
        return
    locs, _ = run_lines(binr, [{"op": "locales", "set": s} for s in SETS])
    sets = dict(zip(SETS, locs))
    # the supported locales are what their configured NAMES say (BCP-47 reading of the name, done here): negotiation run on anything
    # else (language identifiers that lost a subtag on the way into the generated constants) is judged against the names
    for sname, ls in sets.items():
        for l in ls:
            want = langid_of_name(l["name"])
            got = {"l": l["langid"]["l"], "s": l["langid"]["s"], "r": l["langid"]["r"], "v": list(l["langid"]["v"])}
            if want is not None and canon_langid(got) != canon_langid(want):
                report_violation(ctx, "negotiation:supported-locale-is-not-its-name", {
                    "case": {"set": sname, "locale": l["name"]}, "expected_by_spec": want, "implementation": got,
                    "why": "negotiation matches requests against the language identifier of each supported locale: it must be the one its configured name spells",
                    "harness": "runtime_h locales (Locale::as_langid)"})
                l["langid"] = want
    rng = ctx.rng
    cases = []
    corpus = [
        {"set": "A", "accepted": ["fr", "en-US"]},             # F14 witness
        {"set": "A", "accepted": ["fr-FR", "en-US", "!!"]},
        {"set": "B", "accepted": ["de-DE"], "avail": [2, 0, 1, 3]},
        {"set": "B", "accepted": ["fr-CH", "de-CH", "en"]},
        {"set": "C", "accepted": ["zh-Hant-HK", "ca-ES-valencia", "sr"]},
        {"set": "D", "accepted": ["xx", "es-MX", "pt-PT"]},
        {"set": "D", "accepted": []},
        {"set": "A", "accepted": ["fr ", " en-US"]}, {"set": "A", "accepted": ["xx", " fr\t", "en-US"]},     # white space around entries
    ]
    cases += corpus
    for s in SETS:
        u = universe(sets[s], rng)
        n = len(sets[s])
        if ctx.quick:
            for _ in range(ctx.budget(900, 0)):
                k = rng.weighted([(1, 0), (3, 1), (5, 2), (5, 3), (2, 4), (1, 6)])
                acc = [spaced(rng, rng.pick(u)) if not rng.chance(1, 8) else rng.pick(INVALID) for _ in range(k)]
                c = {"set": s, "accepted": acc}
                if rng.chance(1, 3):
                    c["avail"] = rng.sample(list(range(n)), rng.range(1, n))
                cases.append(c)
        else:
            for k in range(0, 4):
                for acc in itertools.product(u, repeat=k):
                    cases.append({"set": s, "accepted": list(acc)})
            for _ in range(6000):
                k = rng.range(1, 6)
                acc = [spaced(rng, rng.pick(u)) if not rng.chance(1, 6) else rng.pick(INVALID) for _ in range(k)]
                cases.append({"set": s, "accepted": acc, "avail": rng.sample(list(range(n)), rng.range(1, n))})
    if not ctx.quick:
        ctx.extra["exhaustive"] = False
        ctx.extra["exhaustive_part"] = "all request lists of length <= 3 over a 24-tag universe for each of 4 locale sets"
    # "the default when nothing matches" is the configured default: where it is written in the `locales` list must not matter
    from . import c19, pipe
    binp = pipe.build_parser(ctx)
    if binp is not None:
        c19.default_first_stage(ctx, rng, binp)
    impl = run_lines_resilient(binr, [dict(c, op="negotiate") for c in cases])
    # build the Lean requests
    lreqs, idx = [], []
    fl_reqs, fl_idx = [], []
    for i, (c, r) in enumerate(zip(cases, impl)):
        if "panic" in r or "crash" in r or "bad_op" in r:
            report_violation(ctx, "negotiate-panics", {"case": c, "impl": r, "kind": "impl panics"})
            continue
        allidx = c.get("avail", list(range(len(sets[c["set"]]))))
        av = [sets[c["set"]][k]["langid"] for k in allidx]
        parsed = [p for p in r["parsed"] if p is not None]
        conv = intern_all(None)
        lreqs.append({"op": "langid.filter", "reqs": [conv(p) for p in parsed], "avail": [conv(a) for a in av],
                      "impl_find": allidx.index(r["find"]) if r["find"] in allidx else len(allidx)})
        idx.append(i)
        if "avail" not in c and r["find_locale"] != r["find"]:
            # the public entry point `Locale::find_locale` answered differently from `find_match`: its answer is judged on its own
            fl_reqs.append(dict(lreqs[-1], impl_find=r["find_locale"]))
            fl_idx.append(i)
    model = lean_driver(lreqs)
    fl_ok = {i: m["spec_ok_impl"] and (bool(impl[i]["filter"]) or m["served"] or impl[i]["find_locale"] == 0) for i, m in zip(fl_idx, lean_driver(fl_reqs))} if fl_reqs else {}
    mism = 0
    for i, m in zip(idx, model):
        c, r = cases[i], impl[i]
        allidx = c.get("avail", list(range(len(sets[c["set"]]))))
        nparsed = sum(1 for p in r["parsed"] if p is not None)
        ctx.seen(c, nontrivial=nparsed > 0 and m["served"])
        ctx.count("len=%d" % len(c["accepted"]))
        ctx.count("served" if m["served"] else "unserved")
        if nparsed < len(c["accepted"]):
            ctx.count("has_invalid_entry")
        if "avail" in c:
            ctx.count("avail_subset")
        mfilter = [allidx[k] for k in m["matches"]]
        mfind = allidx[m["find"]]
        # default: `L::default()` is get_all()[0], not avail[0]: only comparable when nothing matched and 0 ∈ avail first
        bad_model = None
        if mfilter != r["filter"]:
            bad_model = "filter_matches"
        elif r["filter"] and mfind != r["find"]:
            bad_model = "find_match"
        elif not r["filter"] and r["find"] != 0:
            bad_model = "find_match default"
        if "avail" not in c:
            if r["find_locale"] != r["find"]:
                bad_model = "find_locale != find_match"
            per = [x for x in r["find_matchs"] if x is not None]
            if per != m["per_req"]:
                bad_model = "find_matchs"
        if r["lossy_len"] != nparsed:
            bad_model = "lossy"
        # property oracle on the implementation's answer
        spec_bad = None
        if r["filter"] or m["served"]:
            if not m["spec_ok_impl"]:
                spec_bad = "chosen locale is not acceptable (order of preference / exactness / support)"
        elif r["find"] != 0:
            spec_bad = "no match but not the default"
        if any(x not in allidx for x in r["filter"]):
            spec_bad = "result not supported"
        if i in fl_ok and not fl_ok[i]:
            spec_bad = "find_locale: chosen locale is not acceptable (order of preference / exactness / support)"
            r = dict(r, find=r["find_locale"])
        if not m["spec_ok_model"]:
            raise HarnessError("model violates its own proved specification: " + json.dumps(c))
        if spec_bad:
            names = [l["name"] for l in sets[c["set"]]]
            report_violation(ctx, "negotiation:" + spec_bad.split(" (")[0], {
                "case": c, "supported": [names[k] for k in allidx], "chosen": names[r["find"]],
                "expected_by_spec": "a locale acceptable for the first served request; model chooses " + names[mfind],
                "why": spec_bad, "harness": "runtime_h negotiate"})
        elif bad_model:
            mism += 1
            if not any(b["name"] == "R/negotiate:" + bad_model for b in ctx.broken):
                ctx.broken.append({"kind": "correspondence", "name": "R/negotiate:" + bad_model,
                                   "detail": {"case": c, "impl": r, "model": m}})
        if i % 997 == 0:
            ctx.sample({"case": c, "impl_find": r["find"], "model_find": mfind})
    ctx.extra["impl_vs_model_mismatches"] = mism
    ctx.assumptions += ["ICU4X LanguageIdentifier parsing is an oracle (the harness sends parsed subtags)",
                        "subtags compared case-insensitively after ICU canonicalisation"]
    through_contexts(ctx, rng)
    finish_broken(ctx, f"{len(cases)} negotiation cases, impl vs spec on each")
    write_evidence(ctx, RULE)
