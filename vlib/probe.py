"""Probe crates (harness kind X): generated *user crates* that call `load_locales!()` on a generated project and
print what the real generated accessors render, for every (locale, key, argument assignment) chosen here.
The expected text is the denotation (`pv_eval`, python mirror of Spec/Eval.lean) of the value the parser
produced for that key and locale — and, for string keys, `src_eval` of the source AST."""
import html
import os
import re
import shutil
from .pipe import *

ASSUMPTIONS = [
    "rustc / TypedBuilder / leptos rendering are trusted to give generated code its obvious meaning; probe crates check that meaning on compiled code",
    "view flavour: HTML comments, hydration markers and entity escaping are normalised and ASCII spaces are ignored (leptos renders an empty text node as one space in SSR); string/display flavours are compared exactly",
]
PROBE_TARGET = TARGET_DIR + "-probe"


def rust_ident(name):
    return name.strip().replace("-", "_")


def rust_str(s):
    return '"' + "".join(c if (32 <= ord(c) < 127 and c not in '"\\') else "\\u{%x}" % ord(c) for c in s) + '"'


def probe_opts():
    return {"fk": True, "mixed": True, "mismatch": False}


def gen_probe_project(rng, binp, tries=40, opts=None):
    """a generated project the parser accepts, with the pipeline result (needed for the argument sets)"""
    o = dict(probe_opts())
    o.update(opts or {})
    for _ in range(tries):
        if "locales" not in (opts or {}):
            # three locales whose number / date / list formats and plural rules differ, one inheriting from another non-default one
            o["locales"] = rng.shuffle([rng.pick(["en", "en-US"]), rng.pick(["fr", "de", "ru", "pl"]), rng.pick(["fr-CA", "ar", "es", "pt-BR", "cy", "ja"])])
            o["chain"] = True
        proj.FORCE_FALLBACK = True
        try:
            p = proj.gen_project(rng, o)
        finally:
            proj.FORCE_FALLBACK = False
        if p.get("namespaces") is not None and rng.chance(1, 2):
            pass
        # one long interpolation per project (more than 26 parts: nested tuples in the view back-end)
        if o.get("long_key", True):
            # an odd and an even number of parts: the chunking of `fit_in_leptos_tuple` has a remainder only for some lengths
            n1, n2 = rng.pick([27, 29, 31, 51, 53, 55, 79]), rng.pick([40, 52, 60, 78])
            for (ns, l), tree in p["files"].items():
                tree["o"].append(["longkey", f"[{l}]" + gen.print_src(gen.gen_long_src(rng, n1))])
                tree["o"].append(["longkey2", f"[{l}]" + gen.print_src(gen.gen_long_src(rng, n2))])
        if o.get("literal_keys", True):
            # number / boolean / float literals of one type, null or absent in some non-default locales (literal accessors fall back too)
            for (ns, l), tree in p["files"].items():
                for k, v in (("litu", proj.U(5)), ("liti", proj.I(-7)), ("litf", proj.F("2.0")), ("litb", True)):
                    r = rng.below(5) if l != p["default"] else 9
                    if r == 0:
                        continue
                    tree["o"].append([k, None if r == 1 else v])
        if o.get("overlap_keys", True):
            # overlapping branches: an exact value declared after a branch whose bounds contain it (the first match wins, in every flavour)
            for (ns, l), tree in p["files"].items():
                tree["o"].append(["ovf64", proj.A(["f64", proj.A([f"[{l}] {{{{ count }}}}% left", "0.0..=100.0"]), proj.A([f"[{l}] empty", "0.0"]),
                                                   proj.A([f"[{l}] full", proj.F("100.0")]), proj.A([f"[{l}] out of range"])])])
                tree["o"].append(["ovf32", proj.A(["f32", proj.A([f"[{l}] low", "..2.5"]), proj.A([f"[{l}] one", "1.0", "2.5"]), proj.A([f"[{l}] rest {{{{ count }}}}"])])])
                tree["o"].append(["ovi32", proj.A(["i32", proj.A([f"[{l}] few", "0..10"]), proj.A([f"[{l}] five", proj.U(5), proj.U(10)]), proj.A([f"[{l}] rest"])])])
                # exact float values of small magnitude (adjacent floats are closer than EPSILON there), none shadowed by an earlier branch
                tree["o"].append(["exf64", proj.A(["f64", proj.A([f"[{l}] zero", proj.F("0.0")]), proj.A([f"[{l}] half", "0.5", "-0.25"]), proj.A([f"[{l}] tenth", "0.1"]),
                                                   proj.A([f"[{l}] rest {{{{ count }}}}"])])])
                tree["o"].append(["exf32", proj.A(["f32", proj.A([f"[{l}] zero", "0.0"]), proj.A([f"[{l}] half", proj.F("0.5")]), proj.A([f"[{l}] eighth", "0.125 | -0.75"]),
                                                   proj.A([f"[{l}] rest {{{{ count }}}}"])])])
                # more than 16 alternatives (nested `EitherOf` wrappers in the view back-end), the last ones of different shapes
                words = ["zero", "one", "two", "three", "four", "five", "six", "seven", "eight", "nine", "ten", "eleven", "twelve", "thirteen", "fourteen", "fifteen", "sixteen"]
                tree["o"].append(["ov18", proj.A(["u8"] + [proj.A([f"[{l}] {w}" if k != 16 else f"<b>[{l}] {w}</b>", proj.U(k)]) for k, w in enumerate(words)]
                                                + [proj.A([f"[{l}] {{{{ count }}}}"])])])
        if o.get("blank_keys", True):
            # interpolations separated by nothing but blanks, blank-only component bodies
            for (ns, l), tree in p["files"].items():
                tree["o"].append(["blanks", f"{{{{ a }}}} {{{{ b }}}}<b> </b>[{l}]<i>{{{{ a }}}}</i>  {{{{ b }}}} "])
        if o.get("nested_comp_keys", True):
            # a component nested in another one and used again afterwards / before, three levels deep, with a variable at every level
            for (ns, l), tree in p["files"].items():
                tree["o"].append(["nestcomp", f"<i><b>bold italic</b></i> and <b>bold</b> [{l}] <b><i>{{{{ a }}}}</i></b>"])
                tree["o"].append(["nestcomp3", f"<u><i><b>{{{{ a }}}}</b> {{{{ b }}}}</i> <b>x</b></u> <i>[{l}]</i> <u>{{{{ a }}}}</u>"])
        if o.get("ordinal_key", True):
            # an ordinal and a cardinal plural with every form, in every locale (string and view back-ends must use the key's rule type)
            for (ns, l), tree in p["files"].items():
                for f in ("one", "two", "few", "many", "other"):
                    tree["o"].append([f"nth_ordinal_{f}", f"O-{f}-{l}:{{{{ count }}}}"])
                    tree["o"].append([f"amount_{f}", f"C-{f}-{l}:{{{{ count }}}}"])
        if o.get("shared_plurals", True):
            # plural keys only the default locale translates: every other locale renders the default locale's forms (one generated match arm
            # for all of them) with its OWN plural rules, whatever was rendered before in the same process
            for (ns, l), tree in p["files"].items():
                if l == p["default"]:
                    for f in ("zero", "one", "two", "few", "many", "other"):
                        tree["o"].append([f"sharedpl_{f}", f"S-{f}:{{{{ count }}}}"])
                        tree["o"].append([f"sharednth_ordinal_{f}", f"<b>SO-{f}</b>:{{{{ count }}}}"])
        # formatted keys in every project: plain, inside a component, inside a plural, in a group; absent or null in some non-default
        # locales so that an inherited text is formatted for the locale being rendered
        if o.get("formatted_keys", True):
            for (ns, l), tree in p["files"].items():
                def put(k, v, tree=tree, l=l):
                    r = rng.below(6) if l != p["default"] else 9
                    if r == 0:
                        return
                    tree["o"].append([k, None if r == 1 else v])
                put("fmtnum", f"[{l}] n={{{{ num, number }}}}")
                put("fmtnum2", f"[{l}] r={{{{ num, number(grouping_strategy: never) }}}} <b>{{{{ num, number(grouping_strategy: min2) }}}}</b> {{{{ num }}}}")
                put("fmtcur", f"[{l}] {{{{ amount, currency(currency_code: EUR) }}}} / {{{{ amount, currency(width: narrow; currency_code: USD) }}}}")
                put("fmtdate", f"[{l}] {{{{ d, date(date_length: long) }}}} {{{{ d, date }}}}")
                put("fmtdt", f"[{l}] {{{{ dt, datetime(date_length: short; time_length: short) }}}} | {{{{ dt, datetime(date_length: long; time_length: medium) }}}}")
                put("fmttime", f"[{l}] {{{{ tm, time(time_length: short) }}}} <i>{{{{ tm, time(time_length: medium) }}}}</i>")
                put("fmtlist", f"[{l}] {{{{ items, list(list_type: or) }}}} | {{{{ items, list(list_style: short) }}}}")
                put("fmtgroup", proj.O([("inner", f"[{l}] in-group {{{{ num, number(grouping_strategy: always) }}}}")]))
                if rng.chance(2, 3) or l == p["default"]:
                    tree["o"].append(["fmtpl_one", f"[{l}] one: {{{{ num, number }}}}"])
                    tree["o"].append(["fmtpl_other", f"[{l}] {{{{ count }}}} x {{{{ num, number }}}}"])
        q = proj.harness_req(p)
        q["operands"] = sorted(set(q["operands"]) | {f"u:{n}" for n in range(0, 13)} | {"u:21", "u:100", "i:-1", "f:1.5"})
        r, crash = run_lines(binp, [q])
        if crash or not r or "ok" not in r[0].get("result", {}):
            continue
        return p, q, r[0]
    raise HarnessError("could not generate an accepted project for the probe crate")


COUNTS = {"i8": ["0i8", "1i8", "-1i8", "5i8", "127i8", "-128i8", "21i8"], "u8": ["0u8", "1u8", "5u8", "255u8", "21u8", "100u8"],
          "i16": ["0i16", "-300i16", "5i16", "300i16", "21i16"], "u16": ["0u16", "5u16", "600u16", "21u16"],
          "i32": ["0i32", "1i32", "-1i32", "5i32", "50i32", "-50i32", "21i32"], "u32": ["0u32", "1u32", "5u32", "100u32", "21u32"],
          "i64": ["0i64", "-50i64", "5i64", "50i64"], "u64": ["0u64", "5u64", "100u64", "21u64"],
          "f32": ["0.0f32", "1.5f32", "-8.0f32", "0.25f32", "5.0f32", "7.75f32"], "f64": ["0.0f64", "1.5f64", "-8.0f64", "0.25f64", "5.0f64"],
          "plural": ["0u32", "1u32", "2u32", "3u32", "5u32", "11u32", "21u32", "100u32"]}


TYPE_LIMITS = {"i8": (-128, 127), "u8": (0, 255), "i16": (-2 ** 15, 2 ** 15 - 1), "u16": (0, 2 ** 16 - 1), "i32": (-2 ** 31, 2 ** 31 - 1),
               "u32": (0, 2 ** 32 - 1), "i64": (-2 ** 63, 2 ** 63 - 1), "u64": (0, 2 ** 64 - 1)}


def dec_text(q):
    """plain decimal text of a fraction whose denominator is a power of ten times a power of two (no exponent)"""
    from fractions import Fraction
    q = Fraction(q)
    sign = "-" if q < 0 else ""
    q = abs(q)
    ip = q.numerator // q.denominator
    fp = q - ip
    digits = ""
    while fp != 0 and len(digits) < 40:
        fp *= 10
        d = fp.numerator // fp.denominator
        digits += str(d)
        fp -= d
    return "%s%d.%s" % (sign, ip, digits or "0")


def boundary_counts(v, count_key, ty):
    """Rust literals of type `ty` on and next to every bound written in the ranges of `v` that count `count_key`"""
    from fractions import Fraction
    bounds = []

    def rng_bounds(r):
        if r["r"] == "exact":
            bounds.append(r["v"])
        elif r["r"] == "multi":
            for x in r["items"]:
                rng_bounds(x)
        elif r["r"] != "fallback":
            if r["start"] is not None:
                bounds.append(r["start"])
            if r["end"].get("v") is not None:
                bounds.append(r["end"]["v"])

    def walk(x):
        t = x.get("t")
        if t == "ranges":
            if x["count_key"] == count_key:
                for r, _ in x["branches"]:
                    rng_bounds(r)
            for _, b in x["branches"]:
                walk(b)
        elif t == "comp":
            walk(x["inner"])
        elif t == "bloc":
            for y in x["items"]:
                walk(y)
        elif t == "plurals":
            for _, b in x["forms"]:
                walk(b)
            walk(x["other"])
        elif t == "fk" and x.get("set"):
            walk(x["inner"])
    walk(v)
    out = []
    uniq = []
    for b in bounds:
        if Fraction(b) not in uniq:
            uniq.append(Fraction(b))
    # floats: also the closest neighbours one would still write by hand (an equality must not be an "almost equal")
    tiny = {"f32": Fraction(1, 10 ** 7), "f64": Fraction(1, 10 ** 16)}.get(ty)
    for deltas in ((0,), (tiny, -tiny) if tiny else (), (Fraction(1, 2), -Fraction(1, 2)) if ty in ("f32", "f64") else (1, -1)):
        for q in uniq:
            for d in deltas:
                w = q + d
                if ty in ("f32", "f64"):
                    if d in (tiny, -tiny) if tiny else False:
                        if abs(q) <= 1:                      # near 0, 0.25, 0.5, 1: the neighbour is a different float of the type
                            out.append(dec_text(w) + ty)
                    elif w.denominator in (1, 2, 4, 8) and abs(w) < 10 ** 6:
                        out.append(("%s%s" % (float(w), ty)).replace("-0.0f", "0.0f"))
                elif w.denominator == 1:
                    lo, hi = TYPE_LIMITS[ty]
                    if lo <= w <= hi:
                        out.append("%d%s" % (int(w), ty))
    return out


def count_value(lit):
    m = re.match(r"(-?[0-9.]+)[iuf]", lit)
    from fractions import Fraction
    return Fraction(m.group(1))


def count_display(lit):
    v = count_value(lit)
    if v.denominator == 1:
        return str(v.numerator)
    if lit.endswith("f32"):
        import struct
        f = struct.unpack("f", struct.pack("f", float(v)))[0]
        # shortest decimal text that reads back as the same f32 (what Rust's Display prints)
        for n in range(1, 12):
            t = "%.*g" % (n, f)
            if struct.unpack("f", struct.pack("f", float(t)))[0] == f:
                return dec_text(__import__("fractions").Fraction(t)) if "e" in t else t
    r = repr(float(v))
    return dec_text(__import__("fractions").Fraction(r)) if "e" in r else r


# (values with zero, one and more than two fraction digits, a negative one: every flavour must print the same digits)
NUMS = [("2000.5f64", "2000.5"), ("-12345.125f64", "-12345.125"), ("7.0f64", "7")]
ICU = "leptos_i18n::reexports::icu::calendar::"


def typed_value(fams, fmts, a):
    """(Rust expression, Display text) of a value accepted by every formatter the variable is used with, or None"""
    plain = any(f["f"] == "none" for f in fmts)
    if fams <= {"number", "currency"}:
        return NUMS[a % 3]
    if plain:
        return None                      # dates / lists are not Display
    if fams == {"date"}:
        return (ICU + "Date::try_new_iso_date(%d, %d, %d).unwrap().to_any()" % [(1970, 1, 2), (2024, 2, 29), (1999, 12, 31)][a % 3], "")
    if fams == {"list"}:
        return (["[\"A\", \"B\", \"C\"]", "[\"x\", \"y\"]", "[\"solo\"]"][a % 3], "")
    if fams == {"time"} and all(f.get("t") in ("medium", "short") for f in fmts):
        return (ICU + "Time::try_new(%d, %d, %d, 0).unwrap()" % [(14, 34, 28), (0, 0, 0), (23, 59, 59)][a % 3], "")
    if fams == {"datetime"} and all(f.get("t") in ("medium", "short") for f in fmts):
        return (ICU + "DateTime::new(" + ICU + "Date::try_new_iso_date(1970, 1, 2).unwrap().to_any(), " + ICU + "Time::try_new(14, 34, 28, 0).unwrap())", "")
    return None


def build_probes(rng, p, res, oracle, per_key=3, flavours=("string", "display", "view")):
    """list of probes: dict(id, locale, ns, path, flavour, expr, expected)"""
    cats = {(l, r, k): f for l, r, k, f in oracle["cat"]}
    probes = []
    out = res["result"]["ok"]
    cfg = res["cfg"]
    for ns_out in out["nss"]:
        ns = ns_out["key"]
        for path, lv in iter_bki(ns_out["keys"]):
            val = lv["value"]
            for l in cfg["locales"]:
                eff = dict(lv["defaults"]["effective"]).get(l, l)
                v = locale_value_at(ns_out, eff, path)
                if v is None or v.get("t") in ("default", "subkeys"):
                    continue
                for a in range(per_key):
                    args_rs, var_vals, comp_tags, count_of = [], {}, {}, {}
                    ok, formatted = True, False
                    if "interpol" in val:
                        for name, info in val["interpol"]["vars"]:
                            short = name[len("var_"):]
                            if info["count"] is not None:
                                if {f["f"] for f in info["fmts"]} - {"none", "number", "currency"}:
                                    ok = False       # a count that is also formatted as a date / time / list: no value has both types
                                    continue
                                lit = rng.pick(COUNTS[info["count"]])
                                if info["count"] == "plural" and a < 2:
                                    lit = ("0u32", "1u32")[a]      # every locale sees 0 and 1: where plural rules of close locales differ (pt / pt-PT, fr / en)
                                if info["count"] != "plural" and rng.chance(3, 4):
                                    # a count on / next to a bound of one of the key's range branches (in the locale rendered); the
                                    # list is walked across the locales and argument assignments so that the bounds themselves come first
                                    bl = boundary_counts(v, name, info["count"])
                                    if bl:
                                        lit = bl[(a + cfg["locales"].index(l) * per_key) % len(bl)] if rng.chance(2, 3) else rng.pick(bl)
                                count_of[name] = lit
                                var_vals[name] = count_display(lit)
                                args_rs.append((rust_ident(short), lit, True))
                            else:
                                fams = {f["f"] for f in info["fmts"]} - {"none"}
                                if fams:
                                    tv = typed_value(fams, info["fmts"], a)
                                    if tv is None:
                                        ok = False
                                    else:
                                        formatted = True
                                        var_vals[name] = tv[1]
                                        args_rs.append((rust_ident(short), tv[0], True))
                                    continue
                                txt = f"V{a}{short}"
                                var_vals[name] = txt
                                args_rs.append((rust_ident(short), rust_str(txt), False))
                        for name in val["interpol"]["comps"]:
                            short = name[len("comp_"):]
                            comp_tags[name] = rust_ident(short)
                    if not ok:
                        continue

                    def env_for(flavour, l=l):
                        from fractions import Fraction
                        cat_tbl = {}
                        # the plural category is that of the locale being rendered (also when the text is inherited)
                        for (ll, rule, key), f in cats.items():
                            if ll == l:
                                cat_tbl[(rule, Fraction(key[2:]))] = f
                        return Env(vars=var_vals, var_default=("?", ""), var_fmt=False, comp=('<span data-c="', '">', "</span>", ""), close_tag=False,
                                   tags=comp_tags, counts={k: count_value(v) for k, v in count_of.items()}, count_default=0, cats=cat_tbl)
                    plain_vars = [(n, v) for n, v, is_count in args_rs if not is_count and v.startswith('"') and n.isidentifier() and not n.startswith("r#")]
                    key_rs = ".".join(rust_ident(k) for k in path)
                    if ns is not None:
                        key_rs = rust_ident(ns) + "." + key_rs
                    loc_rs = "Locale::" + rust_ident(l)
                    for fl in flavours:
                        comps_rs = []
                        for name, tag in comp_tags.items():
                            short = rust_ident(name[len("comp_"):])
                            if fl.endswith("view"):
                                comps_rs.append(f'<{short}> = |children: ChildrenFn| view! {{ <span data-c="{tag}">{{children()}}</span> }}')
                            else:
                                comps_rs.append(f'<{short}> = leptos_i18n::display::DisplayComp::new("span", &[("data-c", "{tag}")])')
                        vargs = [f"{n} = move || {v}" if (is_count and fl.endswith("view")) else f"{n} = {v}" for n, v, is_count in args_rs]
                        allargs = ", ".join([loc_rs, key_rs] + vargs + comps_rs)
                        rest_args = ", ".join(vargs + comps_rs)
                        full = ([rust_ident(ns)] if ns is not None else []) + [rust_ident(k) for k in path]
                        if fl.startswith("scoped"):
                            # every scoping prefix of the key path, chained scope by scope
                            if len(full) < 2:
                                continue
                            cut = rng.range(1, len(full) - 1)
                            pre, post = full[:cut], full[cut:]
                            scope = loc_rs
                            for seg in pre:
                                scope = f"scope_locale!({scope}, {seg})"
                            inner = ", ".join(["__s", ".".join(post)] + vargs + comps_rs)
                            mac = {"scoped_string": "td_string!", "scoped_display": "td_display!"}[fl]
                            expr = f"{{ let __s = {scope}; {mac}({inner}).to_string() }}"
                        elif fl in ("ctx_string", "ctxu_string", "ctx_scoped_string"):
                            mac = "t_string!" if fl != "ctxu_string" else "tu_string!"
                            if fl == "ctx_scoped_string":
                                if len(full) < 2:
                                    continue
                                cut = rng.range(1, len(full) - 1)
                                pre, post = full[:cut], full[cut:]
                                scope = "__i18n"
                                for seg in pre:
                                    scope = f"scope_i18n!({scope}, {seg})"
                                inner = ", ".join(["__c", ".".join(post)] + vargs + comps_rs)
                                expr = f"with_ctx({loc_rs}, |__i18n| {{ let __c = {scope}; t_string!({inner}).to_string() }})"
                            else:
                                inner = ", ".join(["__i18n", key_rs] + vargs + comps_rs)
                                expr = f"with_ctx({loc_rs}, |__i18n| {mac}({inner}).to_string())"
                        elif fl in ("ctx_view", "ctxu_view", "late_view", "lateu_view"):
                            # t! / tu! views through a context; the `late` ones are built while the context shows another locale and rendered
                            # after it was set: a view shows the context's locale at the time it is rendered, like the t! view built next to it
                            mac = "tu!" if "u_" in fl else "t!"
                            inner = ", ".join(["__i18n", key_rs] + vargs + comps_rs)
                            if fl.startswith("late"):
                                others = [x for x in cfg["locales"] if x != l]
                                if not others:
                                    continue
                                other_rs = "Locale::" + rust_ident(others[(a + len(path)) % len(others)])
                                expr = f"with_ctx({other_rs}, |__i18n| {{ let __v = {mac}({inner}); __i18n.set_locale_untracked({loc_rs}); render(__v) }})"
                            else:
                                expr = f"with_ctx({loc_rs}, |__i18n| render({mac}({inner})))"
                        elif fl == "string" and a == per_key - 1 and len(plain_vars) >= 2:
                            # argument values that mention each other's names: `x = y, y = x` with locals x, y (the values are
                            # evaluated in the caller's scope, all of them before any is bound)
                            (n1, v1), (n2, v2) = plain_vars[0], plain_vars[1]
                            sw = [f"{n} = {n2 if n == n1 else n1 if n == n2 else v}" if not is_count and n in (n1, n2) else f"{n} = {v}"
                                  for n, v, is_count in args_rs]
                            inner = ", ".join([loc_rs, key_rs] + sw + comps_rs)
                            expr = f"{{ let {n1} = {v2}; let {n2} = {v1}; td_string!({inner}).to_string() }}"
                        elif fl == "string":
                            expr = f"td_string!({allargs}).to_string()"
                        elif fl == "display":
                            expr = f"td_display!({allargs}).to_string()"
                        else:
                            expr = f"render(td!({allargs}))"
                        probes.append({"id": len(probes), "locale": l, "effective": eff, "ns": ns, "path": list(path), "flavour": fl,
                                       "expr": expr, "expected": None if formatted else pv_eval(env_for(fl), v), "group": (l, ns, tuple(path), a),
                                       "formatted": formatted})
    return probes


MAIN_RS = '''#![allow(unused_imports, non_snake_case, unused_variables, unused_braces)]
leptos_i18n::load_locales!();
use i18n::*;
use leptos::prelude::*;

fn render<T: IntoView>(view: T) -> String {
    // render in an owner of its own so that disposing the view leaves the context's signals alone
    let o = Owner::new();
    o.with(|| view.into_view().to_html())
}

/// a context of its own per call, in a root owner that is never disposed (the context's effects may still run later)
fn with_ctx<R>(l: Locale, f: impl FnOnce(leptos_i18n::I18nContext<Locale>) -> R) -> R {
    let owner = Owner::new_root(None);
    let r = owner.with(|| {
        let i18n = leptos_i18n::context::init_i18n_context_with_options::<Locale>(
            leptos_i18n::context::I18nContextOptions::<Locale>::default()
                .enable_cookie(false)
                .ssr_lang_header_getter(leptos_i18n::context::UseLocalesOptions::default().ssr_lang_header_getter(|| None)),
        );
        i18n.set_locale_untracked(l);
        f(i18n)
    });
    std::mem::forget(owner);
    r
}

/// spawned tasks (the contexts' isomorphic effects) are never run: nothing happens concurrently with the probes, every probe reads a
/// quiescent reactive system (a thread pool would run them on other threads, racing with the owners the probes create and drop)
struct Quiet;
impl any_spawner::CustomExecutor for Quiet {
    fn spawn(&self, fut: any_spawner::PinnedFuture<()>) {
        std::mem::forget(fut);
    }
    fn spawn_local(&self, fut: any_spawner::PinnedLocalFuture<()>) {
        std::mem::forget(fut);
    }
    fn poll_local(&self) {}
}

fn emit(id: usize, out: String) {
    println!("{}\\t{}", id, out.chars().map(|c| if c == '\\n' { "\\\\n".to_string() } else if c == '\\\\' { "\\\\\\\\".to_string() } else { c.to_string() }).collect::<String>());
}

fn main() {
    let owner = Owner::new_root(None);
    owner.set();
    let _ = any_spawner::Executor::init_custom_executor(Quiet);
%s
}
'''


def write_crate(dirp, q, probes, features=None):
    if os.path.exists(dirp):
        shutil.rmtree(dirp)
    os.makedirs(os.path.join(dirp, "src"))
    feats = features or ["json_files", "icu_compiled_data", "interpolate_display", "plurals", "format_datetime", "format_nums", "format_list", "format_currency", "ssr"]
    cargo = q["cargo_toml"].replace('[dependencies]', '[dependencies]\nleptos = { version = "0.7.7", features = ["ssr"] }\nany_spawner = { version = "*", features = ["futures-executor"] }\n'
                                    'leptos_i18n = { path = "/repo/leptos_i18n", features = [' + ", ".join(json.dumps(f) for f in feats) + '] }\n')
    cargo = cargo.replace('name = "proj"', 'name = "probe"').replace('version = "0.1.0"', 'version = "0.1.0"\nedition = "2021"')
    cargo += "\n[workspace]\n"
    with open(os.path.join(dirp, "Cargo.toml"), "w") as f:
        f.write(cargo)
    for rel, text in q["files"]:
        fp = os.path.join(dirp, rel)
        os.makedirs(os.path.dirname(fp), exist_ok=True)
        with open(fp, "w") as f:
            f.write(text)
    body = "\n".join(f"    emit({pr['id']}, {pr['expr']});" for pr in probes)
    with open(os.path.join(dirp, "src", "main.rs"), "w") as f:
        f.write(MAIN_RS % body)
    shutil.copy(os.path.join(REPO, "Cargo.lock"), os.path.join(dirp, "Cargo.lock"))


class _Obj(list):
    """a JSON object as its list of (key, value) pairs, in file order"""


def _emit_pairs(j):
    if isinstance(j, _Obj):
        return "{" + ", ".join(json.dumps(k, ensure_ascii=False) + ": " + _emit_pairs(v) for k, v in j) + "}"
    if isinstance(j, list):
        return "[" + ", ".join(_emit_pairs(x) for x in j) + "]"
    return json.dumps(j, ensure_ascii=False)


def _error_signature(err):
    m = re.search(r"^error(\[E\d+\])?: (.*)$", err, flags=re.M)
    if not m:
        return None
    return m.group(1) or m.group(2)[:60]


def explain_compile_failure(ctx, dirp, q, probes, err, sig_prefix, budget=18, features=None):
    """a probe crate that does not compile: find the input that is to blame.  (1) the error is located in a probe expression: that
    accessor call is the failing input; (2) the error is inside the `load_locales!` expansion: delta-debug the top-level keys of the
    translation files (the same keys removed from every locale) down to a small set that still fails with the same rustc error.
    Returns True when a concrete failing input was reported."""
    header = MAIN_RS.split("%s")[0].count("\n")
    for ln in [int(x) for x in re.findall(r"--> src/main\.rs:(\d+):", err)]:
        idx = ln - 1 - header
        if 0 <= idx < len(probes):
            pr = probes[idx]
            msg = err[max(0, err.find("error")):][:900]
            report_violation(ctx, sig_prefix + ":accessor-does-not-compile", {
                "probe": pr["expr"], "locale": pr.get("locale"), "key_path": pr.get("path"), "implementation": msg,
                "expected_by_spec": "supplying exactly the key's arguments compiles", "cargo_toml": q["cargo_toml"], "files": q["files"],
                "harness": "probe crate (load_locales! compiled by rustc)"})
            return True
    sig = _error_signature(err)
    if sig is None:
        return False
    try:
        trees = [(rel, json.loads(text, object_pairs_hook=_Obj)) for rel, text in q["files"]]
    except ValueError:
        return False
    keys = []
    for _, t in trees:
        if isinstance(t, _Obj):
            for k, _v in t:
                if k not in keys:
                    keys.append(k)
    tries = [0]

    def files_for(keep):
        return [[rel, _emit_pairs(_Obj([kv for kv in t if kv[0] in keep])) if isinstance(t, _Obj) else _emit_pairs(t)] for rel, t in trees]

    def fails(keep):
        tries[0] += 1
        write_crate(dirp, dict(q, files=files_for(keep)), [], features=features)
        rc, out, e = run(["cargo", "check", "--offline", "--target-dir", PROBE_TARGET], cwd=dirp, timeout=1800)
        return rc != 0 and _error_signature(e) == sig, e
    ok, e0 = fails(set(keys))
    if not ok:
        return False
    cur, n, last_err = list(keys), 2, e0
    while len(cur) > 1 and tries[0] < budget:
        size = max(1, len(cur) // n)
        chunks = [cur[i:i + size] for i in range(0, len(cur), size)]
        reduced = False
        for c in chunks:                      # a single chunk that still fails
            if tries[0] >= budget:
                break
            ok, e = fails(set(c))
            if ok:
                cur, n, reduced, last_err = c, 2, True, e
                break
        if not reduced:
            for c in chunks:                  # a complement that still fails
                if tries[0] >= budget or len(chunks) <= 2:
                    break
                rest = [k for k in cur if k not in c]
                ok, e = fails(set(rest))
                if ok:
                    cur, n, reduced, last_err = rest, max(n - 1, 2), True, e
                    break
        if not reduced:
            if n >= len(cur):
                break
            n = min(len(cur), n * 2)
    msg = last_err[max(0, last_err.find("error")):][:900]
    report_violation(ctx, sig_prefix + ":generated-code-does-not-compile", {
        "keys": cur, "implementation": msg, "expected_by_spec": "the module generated for translations the parser accepts compiles",
        "cargo_toml": q["cargo_toml"], "files": files_for(set(cur)), "rustc_error": sig, "compiles_tried": tries[0],
        "harness": "probe crate (load_locales! compiled by rustc), keys reduced by delta debugging"})
    return True


def normalise_view(s):
    s = re.sub(r"<!--.*?-->", "", s, flags=re.S)
    s = s.replace("<!>", "")
    s = re.sub(r' data-hk="[^"]*"', "", s)
    return html.unescape(s)


def run_crate(ctx, dirp, timeout=3600):
    rc, out, err = run(["cargo", "run", "--offline", "--target-dir", PROBE_TARGET], cwd=dirp, timeout=timeout)
    return rc, out, err


PRIORITY_KEYS = ["fmtnum2", "fmtnum", "fmtcur", "fmtdate", "fmtdt", "fmttime", "fmtlist", "inner", "fmtpl", "blanks", "nestcomp", "sharedpl", "sharednth", "nestcomp3",
                 "exf64", "exf32", "ovf64", "ovf32", "ovi32", "ov18", "nth", "amount", "longkey", "longkey2", "litu", "liti", "litf", "litb"]


DYN_SSR_FEATURES = ["json_files", "icu_compiled_data", "interpolate_display", "plurals", "format_datetime", "format_nums", "format_list", "format_currency",
                    "dynamic_load", "ssr"]


def compile_only_probe(ctx, rng, features, sig_prefix, opts=None, label="dynamic_load+ssr"):
    """the module `load_locales!` generates for a generated project must compile in another feature set of the library as well (no accessor
    is called: the generated `match`es over the locales, the builders and the string tables are type-checked by rustc)"""
    binp = build_parser(ctx)
    if binp is None:
        return
    p, q, res = gen_probe_project(rng, binp, opts=opts)
    dirp = os.path.join(WORK, f"probe_{ctx.pid}_features")
    write_crate(dirp, q, [], features=features)
    rc, out, err = run(["cargo", "check", "--offline", "--target-dir", PROBE_TARGET], cwd=dirp, timeout=3600)
    ctx.seen({"compile_only": label, "files": q["files"][0][1][:200]}, nontrivial=True)
    ctx.count("compile_only:" + label)
    if rc != 0:
        if not explain_compile_failure(ctx, dirp, q, [], err, sig_prefix + ":" + label, features=features):
            errs = "\n".join(l for l in err.split("\n") if l.startswith("error"))[:1500]
            ctx.broken.append({"kind": "correspondence", "name": "X/probe crate does not compile (" + label + ")", "detail": {"errors": errs or err[-1500:], "files": q["files"]}})
    shutil.rmtree(dirp, ignore_errors=True)


def run_render_probe(ctx, rng, n_crates=1, flavours=("string", "display", "view"), opts=None, sig_prefix="render", per_key=3,
                     check_groups=False, cap=900, prio_share=0.5):
    """generate projects, compile the probe crates against /repo, compare every rendered text with the denotation"""
    binp = build_parser(ctx)
    if binp is None:
        return
    total = 0
    for c in range(n_crates):
        p, q, res = gen_probe_project(rng, binp, opts=opts)
        probes = build_probes(rng, p, res, res["oracle"], per_key=per_key, flavours=flavours)
        if len(probes) > cap:
            # keep whole groups (all flavours of one key x locale x arguments).  Not left to luck: the groups holding a probe with swapped
            # locals, then one group per (locale, key) of the keys every project is given on purpose (PRIORITY_KEYS: formatted, blank-separated,
            # nested components, shared plural arms, overlapping ranges, literals, long keys) — up to `prio_share` of the budget, in the order of the list —, the rest at random
            groups_all = sorted({pr["group"] for pr in probes}, key=str)
            per_group = max(1, len(probes) // len(groups_all))
            n_keep = min(len(groups_all), max(1, cap // per_group))
            swapped = sorted({pr["group"] for pr in probes if pr["expr"].startswith("{ let ")}, key=str)
            chosen = rng.sample(swapped, min(len(swapped), 6))
            seen_lk = {(g[0], g[1], g[2]) for g in chosen}
            prio = rng.shuffle([g for g in groups_all if g[2] and g[2][-1] in PRIORITY_KEYS])
            prio.sort(key=lambda g: PRIORITY_KEYS.index(g[2][-1]))        # (stable: random within one key, the list's order between keys)
            for g in prio:
                if len(chosen) >= int(n_keep * prio_share):
                    break
                if (g[0], g[1], g[2]) not in seen_lk:
                    seen_lk.add((g[0], g[1], g[2]))
                    chosen.append(g)
            have = set(map(str, chosen))
            rest = [g for g in groups_all if str(g) not in have]
            chosen += rng.sample(rest, min(len(rest), max(0, n_keep - len(chosen))))
            keep = set(map(str, chosen))
            probes = [pr for pr in probes if str(pr["group"]) in keep]
            for k, pr in enumerate(probes):
                pr["id"] = k
        dirp = os.path.join(WORK, f"probe_{ctx.pid}_{c}")
        write_crate(dirp, q, probes)
        rc, out, err = run_crate(ctx, dirp)
        if rc != 0 and "could not compile" not in err and "panicked at" in err:
            # compiled, then one probe expression panicked: that expression is the failing input
            done = {int(l.partition("\t")[0]) for l in out.split("\n") if l.partition("\t")[0].isdigit()}
            first = next((pr for pr in probes if pr["id"] not in done), None)
            msg = err[err.index("panicked at"):][:600]
            report_violation(ctx, sig_prefix + ":accessor-panics", {"probe": first and first["expr"], "locale": first and first["locale"], "key_path": first and first["path"],
                                                                   "implementation": msg, "expected_by_spec": first and first["expected"],
                                                                   "cargo_toml": q["cargo_toml"], "files": q["files"], "harness": "probe crate (load_locales! compiled by rustc), run"})
            shutil.rmtree(dirp, ignore_errors=True)
            continue
        if rc != 0:
            errs = "\n".join(l for l in err.split("\n") if l.startswith("error"))[:1500]
            # a probe crate that does not compile: the generated code / argument sets are not what the model says
            ctx.count("probe_crate_compile_failed")
            if explain_compile_failure(ctx, dirp, q, probes, err, sig_prefix):
                shutil.rmtree(dirp, ignore_errors=True)
                continue
            ctx.broken.append({"kind": "correspondence", "name": "X/probe crate does not compile", "detail": {"errors": errs or err[-1500:], "files": q["files"]}})
            continue
        got = {}
        for line in out.split("\n"):
            if "\t" in line:
                i, _, t = line.partition("\t")
                if i.isdigit():
                    got[int(i)] = t.replace("\\n", "\n").replace("\\\\", "\\")
        groups = {}
        for pr in probes:
            total += 1
            o = got.get(pr["id"])
            if o is None:
                report_violation(ctx, sig_prefix + ":probe-missing-output", {"probe": pr["expr"], "files": q["files"], "stderr": err[-800:]})
                continue
            exp = pr["expected"]
            if exp is None:
                # formatted values: ICU's text is not recomputed here; every flavour must give the same text (below)
                ctx.count("probe:formatted")
                groups.setdefault(pr["group"], {})[pr["flavour"]] = normalise_view(o) if pr["flavour"].endswith("view") else o
                ctx.seen({"expr": pr["expr"], "files": q["files"][0][1][:200]}, nontrivial=True)
                continue
            if pr["flavour"].endswith("view"):
                # leptos renders an empty text node as a single space during SSR: compare modulo U+0020
                o = normalise_view(o).replace(" ", "")
                exp = exp.replace(" ", "")
            ctx.seen({"expr": pr["expr"], "files": q["files"][0][1][:200]}, nontrivial="V" in pr["expr"] or "<" in pr["expr"])
            ctx.count("probe:" + pr["flavour"])
            groups.setdefault(pr["group"], {})[pr["flavour"]] = o
            if o != exp:
                report_violation(ctx, sig_prefix + ":compiled-accessor-differs", {
                    "probe": pr["expr"], "locale": pr["locale"], "effective_locale": pr["effective"], "key_path": pr["path"],
                    "expected_by_spec": pr["expected"], "implementation": o, "cargo_toml": q["cargo_toml"], "files": q["files"],
                    "harness": "probe crate (load_locales! compiled by rustc)"})
        formatted_groups = {pr["group"] for pr in probes if pr.get("formatted")}
        for g, d in groups.items():
            if check_groups or g in formatted_groups:
                exact = {k: v for k, v in d.items() if not k.endswith("view")}
                if len(set(exact.values())) > 1 or len({v.replace(" ", "") for v in d.values()}) > 1:
                    report_violation(ctx, sig_prefix + ":flavours-disagree", {"key": str(g), "outputs": d, "files": q["files"]})
                    break
        if probes:
            ctx.sample({"probe": probes[0]["expr"], "expected": probes[0]["expected"], "got": got.get(probes[0]["id"])})
        shutil.rmtree(dirp, ignore_errors=True)
    ctx.extra["probe_expressions"] = ctx.extra.get("probe_expressions", 0) + total
