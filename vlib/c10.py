"""C10 — results depend only on translation content, not on order, run or file format.
Theorems: lean/I18nVerif/Theorems/C10.lean (BTreeMap insertion is order-independent under distinct keys; locale
decoding is invariant under permutation of the entries).  Correspondence: the same generated project is loaded
(a) twice in fresh processes, (b) with the entries of every object permuted, (c) written as JSON, JSON5 and YAML
(three feature builds of the harness); canonical dumps must be identical (rendered text for the format comparison,
where numeric literal *types* may differ as the property allows); generated code text of two fresh generator
processes must be byte-identical."""
from .pipe import *

RULE = ("generated projects x {2 fresh processes, 3 sampled permutations of every object's entries, JSON / JSON5 / YAML files}; non-trivial = the "
        "project loads successfully and has >= 2 keys in some object; distinct = distinct project text")


# error kinds raised while a file is being decoded (serde visits the entries in document order)
DECODE_STAGE = {"Serde", "InvalidKey", "DuplicateKey", "UnknownFormatter", "UnexpectedToken", "InvalidForeignKeyArgs", "EmptyRange", "InvalidRangeType",
                "NestedRanges", "InvalidFallback", "MultipleFallbacks", "MissingFallback", "RangeSubkeys", "RangeNull", "RangeNumberType", "RangeParse",
                "InvalidBoundEnd", "ImpossibleRange", "LocaleFileNotFound", "ConfigFileDeser", "ConfigNotPresent"}


def norm_msg(m):
    import re
    return re.sub(r"verif_ph_\d+_\w+", "verif_ph", m) if isinstance(m, str) else m


def permute_tree(rng, j):
    if isinstance(j, dict) and "o" in j:
        return {"o": rng.shuffle([[k, permute_tree(rng, v)] for k, v in j["o"]])}
    if isinstance(j, dict) and "a" in j:
        return {"a": [permute_tree(rng, x) for x in j["a"]]}
    return j


def permuted(rng, p):
    q = dict(p)
    q["files"] = {k: permute_tree(rng, t) for k, t in p["files"].items()}
    return q


def text_view(res):
    """format-insensitive view of a result: keys, diagnostics and rendered text (literal types dropped)"""
    if "ok" not in res:
        return {"err": True}
    out = []
    env = Env()
    for ns in res["ok"]["nss"]:
        for l in ns["locales"]:
            for path, lv in iter_bki(ns["keys"]):
                v = locale_value_at(ns, l["top"], path)
                if v is not None and v["t"] not in ("default", "subkeys"):
                    for c in (0, 1, 2, 7):
                        from fractions import Fraction
                        e = Env(count_default=c)
                        out.append([ns["key"], l["top"], list(path), c, pv_eval(e, v)])
    return {"texts": out, "warnings": res["ok"]["warnings"],
            "keys": [[ns["key"], sorted(map(list, (p for p, _ in iter_bki(ns["keys"]))))] for ns in res["ok"]["nss"]]}


DECL_MAIN = '''#![allow(unused_imports, non_snake_case, unused_variables, unused_braces, dead_code)]
mod a { leptos_i18n::declare_locales! { %s } }
mod b { leptos_i18n::declare_locales! { %s } }
fn emit(id: &str, out: String) { println!("{}\\t{}", id, out.replace('\\n', "\\\\n")); }
fn main() {
%s
}
'''


def declare_probe(ctx, rng, binp):
    """the inline `declare_locales!` macro: the same translations declared twice with the keys of every block in two orders (a reference
    written *after* a subkeys block, before it, inside it) must give the same texts, and the texts the file loader gives for that content"""
    from . import probe
    import shutil
    locales = ["en", "fr"]
    def block(l):
        # (key, value) with value: str | dict (subkeys)
        return [("title", f"[{l}] T {{{{ x }}}}"), ("menu", {"open": f"[{l}] open", "deep": {"leaf": f"[{l}] leaf {{{{ x }}}}", "rf": "<$t(title, {\"x\": \"in-deep\"})>"}}),
                ("after_group", f"$t(menu.open) + $t(menu.deep.leaf, {{\"x\": \"A\"}})"), ("plain", f"[{l}] plain"),
                ("grp2", {"k": f"[{l}] k", "r": "$t(plain)!"}), ("last", "$t(grp2.r) $t(after_group)")]
    def perm(items, how):
        items = list(items)
        if how == "reversed":
            items.reverse()
        elif how == "shuffled":
            items = rng.shuffle(items)
        return [(k, perm(list(v.items()), how) if isinstance(v, dict) else v) for k, v in items]
    def rust(items):
        out = []
        for k, v in items:
            if isinstance(v, list):
                out.append(f"{k}: {{ {rust(v)} }}")
            else:
                out.append(f"{k}: {json.dumps(v, ensure_ascii=False)}")
        return ", ".join(out)
    def decl(how):
        head = 'path: leptos_i18n, default: "en", locales: ["en", "fr"], '
        return head + ", ".join(f"{l}: {{ {rust(perm(block(l), how))} }}" for l in locales)
    def tree(items):
        return proj.O([(k, tree(list(v.items())) if isinstance(v, dict) else v) for k, v in items])
    p = {"default": "en", "locales": locales, "all_locales": locales, "namespaces": None, "inherits": {},
         "files": {(None, l): tree(block(l)) for l in locales}, "extra_cfg": False, "meta": {}}
    (o,) = run_projects(ctx, binp, [p], want_model=False)
    if "ok" not in o["ci"]:
        raise HarnessError("the declare_locales! probe content is rejected by the file loader: " + str(o["impl"].get("result"))[:300])
    ns_out = o["impl"]["result"]["ok"]["nss"][0]
    paths = [("title",), ("menu", "open"), ("menu", "deep", "leaf"), ("menu", "deep", "rf"), ("after_group",), ("plain",), ("grp2", "k"), ("grp2", "r"), ("last",)]
    lines, expected = [], {}
    for m in ("a", "b"):
        for l in locales:
            for path in paths:
                args = ', x = "X"' if path in (("title",), ("menu", "deep", "leaf")) else ""
                pid = f"{m}:{l}:{'.'.join(path)}"
                lines.append(f'    emit("{pid}", {m}::i18n::td_string!({m}::i18n::Locale::{l}, {".".join(path)}{args}).to_string());')
                expected[pid] = pv_eval(Env(vars={"var_x": "X"}), locale_value_at(ns_out, l, path))
    dirp = os.path.join(WORK, f"declprobe_{ctx.pid}")
    if os.path.exists(dirp):
        shutil.rmtree(dirp)
    os.makedirs(os.path.join(dirp, "src"))
    feats = ["json_files", "icu_compiled_data", "interpolate_display", "plurals", "format_datetime", "format_nums", "format_list", "format_currency", "ssr"]
    with open(os.path.join(dirp, "Cargo.toml"), "w") as f:
        f.write('[package]\nname = "declprobe"\nversion = "0.1.0"\nedition = "2021"\n\n[dependencies]\nleptos = { version = "0.7.7", features = ["ssr"] }\n'
                'leptos_i18n = { path = "/repo/leptos_i18n", features = [' + ", ".join(json.dumps(x) for x in feats) + '] }\n\n[workspace]\n')
    with open(os.path.join(dirp, "src", "main.rs"), "w") as f:
        f.write(DECL_MAIN % (decl("written"), decl(rng.pick(["reversed", "shuffled"])), "\n".join(lines)))
    shutil.copy(os.path.join(REPO, "Cargo.lock"), os.path.join(dirp, "Cargo.lock"))
    rc, out, err = probe.run_crate(ctx, dirp)
    case = {"declare_locales_a": decl("written"), "main_rs": open(os.path.join(dirp, "src", "main.rs")).read()[:3000]}
    shutil.rmtree(dirp, ignore_errors=True)
    ctx.count("declare_locales_probe")
    if rc != 0:
        errs = "\n".join(x for x in err.split("\n") if x.startswith("error") or "panicked" in x)[:1500]
        report_violation(ctx, "determinism:declare_locales-rejects-one-key-order", {
            "case": case, "implementation": errs or err[-1500:], "expected_by_spec": "both key orders compile and give the same texts",
            "harness": "probe crate with two declare_locales! invocations"})
        return
    got = {}
    for line in out.split("\n"):
        if "\t" in line:
            i, _, t = line.partition("\t")
            got[i] = t.replace("\\n", "\n")
    for pid, exp in expected.items():
        ctx.seen({"declare_locales": pid}, nontrivial="$t" in str(case) )
        if got.get(pid) != exp:
            report_violation(ctx, "determinism:declare_locales-text-differs", {
                "case": case, "probe": pid, "expected_by_spec": exp, "implementation": got.get(pid),
                "why": "the same translations, declared inline with the keys in another order, or loaded from files, give the same text"})
            return


def has_integer_beyond_i64(p):
    def walk(j):
        if isinstance(j, dict):
            if "u" in j and isinstance(j["u"], int) and j["u"] > 2 ** 63 - 1:
                return True
            return any(walk(v) for v in j.get("a") or []) or any(walk(kv[1]) for kv in j.get("o") or [])
        return False
    return any(walk(t) for t in p["files"].values())


def run(ctx):
    lean_check(ctx, "I18nVerif.Theorems.C10", "C10_")
    lean_check(ctx, "I18nVerif.Theorems.C10Pipeline", "C10_")
    rng = ctx.rng
    bins = {f: build_parser(ctx, f) for f in ("json", "yaml", "json5")}
    if any(b is None for b in bins.values()):
        finish_broken(ctx, "harness does not build")
        write_evidence(ctx, RULE)
        return
    def dup_project(pairs):
        return {"default": "en", "locales": ["en"], "all_locales": ["en"], "namespaces": None, "inherits": {},
                "files": {(None, "en"): proj.O(pairs)}, "extra_cfg": False, "meta": {}}
    # F13 witnesses: keys equal after trimming, in both orders, at top level and inside a subkey group
    corpus = [dup_project([("a", "first"), ("a ", "second"), ("b", "x")]), dup_project([("a ", "second"), ("b", "x"), ("a", "first")]),
              dup_project([("g", proj.O([("k", "1"), (" k", "2")])), ("b", "x")]), dup_project([("a", "same"), ("a", "same")]),
              # several errors of the later stages: the diagnostic must not depend on the order of the keys
              dup_project([("a", "$t(b)"), ("b", "$t(a)"), ("c", "plain")]), dup_project([("c", "plain"), ("b", "$t(a)"), ("a", "$t(b)")]),
              dup_project([("x", "$t(nope_one)"), ("y", "$t(nope_two)")]), dup_project([("y", "$t(nope_two)"), ("x", "$t(nope_one)")]),
              dup_project([("p_one", "1"), ("p_other", "n"), ("p", "clash"), ("q_one", "1"), ("q_other", "n"), ("q", "clash")]),
              dup_project([("m", "$t(a, {\"count\": \"x\"})"), ("a", proj.A([proj.A(["v", proj.U(1)]), proj.A(["w"])])), ("n", "$t(zz)")])]
    # witness of the recorded finding C10-json5-u64 (integers above i64::MAX are JSON / YAML only)
    corpus.append(dup_project([("info", proj.U(18446744073709551615)), ("n", proj.A(["u64", proj.A(["max", proj.U(18446744073709551615)]), proj.A(["rest"])]))]))
    # counts written as numbers that do not fit the range type: the same answer (an error) in every format, whichever integer
    # callback (`visit_u64` / `visit_i64`) the format's reader uses
    for ty, n in (("u8", 1000), ("u8", 256), ("i8", 300), ("i8", -200), ("u16", 70000), ("i16", -40000), ("u32", 4294967296), ("i32", 2147483648), ("u8", -1)):
        corpus.append(dup_project([("n", proj.A([ty, proj.A(["first", proj.num(n), proj.U(1)]), proj.A(["rest"])])), ("k", "plain")]))
    # the corpus of past panic witnesses (degenerate declarations: a typed range without branches, null branches, non-finite bounds, …): whatever
    # the answer is, it is the same in the three formats (each front-end drives the same visitors through its own `SeqAccess` / `MapAccess`)
    from . import c09
    corpus += [dup_project(list(map(tuple, tree["o"]))) for tree, _note in c09.WITNESS_PROJECTS]
    for ty in ("i8", "u64", "f32", "f64"):
        corpus.append(dup_project([("todo", proj.A([ty])), ("k", "plain")]))
        corpus.append(dup_project([("g", proj.O([("todo", proj.A([ty]))])), ("k", "$t(g.todo, {\"count\": 1})")]))
    # a fallback written first / in the middle of the last branch's count list (the visitors must read every sequence to its end in every format)
    for head in ([], ["i32"], ["f64"], ["u8"]):
        one, two = (proj.F("1.0"), proj.F("2.0")) if head == ["f64"] else (proj.U(1), proj.U(2))
        for last in (["b", "_", two], ["b", "..", two, proj.U(7) if head != ["f64"] else "7.5"], ["b", two, "_", "9"], ["b", "3 | _", two], ["b", "_"]):
            corpus.append(dup_project([("n", proj.A(head + [proj.A(["a {{ count }}", one]), proj.A(last)])), ("k", "plain")]))
            corpus.append(dup_project([("n", proj.A(head + [proj.A(["a", one]), proj.O([("count", proj.A(last[1:])), ("value", "b")])])), ("k", "$t(n, {\"count\": 2})")]))
    projects = corpus + [proj.gen_project(rng) for _ in range(ctx.budget(250, 5000))]
    base = run_projects(ctx, bins["json"], projects)
    again = run_projects(ctx, bins["json"], projects, want_model=False)
    for p, a, b in zip(projects, base, again):
        compare_model(ctx, "P/pipeline(C10)", p, a)
        nk = max((len(t["o"]) for t in p["files"].values()), default=0)
        ctx.seen(project_text(p), nontrivial="ok" in a["ci"] and nk >= 2)
        ctx.count("result:" + ("ok" if "ok" in a["ci"] else "err"))
        if a["ci"] != b["ci"]:
            report_violation(ctx, "determinism:two-runs-differ", {"case": project_text(p), "first": a["ci"], "second": b["ci"]})
    # (b) permutations
    for rep in range(ctx.budget(3, 4)):
        perm = [permuted(rng, p) for p in projects]
        outs = run_projects(ctx, bins["json"], perm, want_model=False)
        for p, q, a, b in zip(projects, perm, base, outs):
            ctx.count("permutation")
            ma, mb = norm_msg(a["impl"].get("result", {}).get("msg")), norm_msg(b["impl"].get("result", {}).get("msg"))
            if a["ci"] == b["ci"] and "err" in a["ci"] and a["ci"]["err"] not in DECODE_STAGE and ma != mb:
                report_violation(ctx, "determinism:key-order-changes-diagnostic", {
                    "case": project_text(p), "permuted": project_text(q), "first": ma, "second": mb,
                    "expected_by_spec": "identical diagnostics", "harness": "parser_h pipeline"})
                continue
            if a["ci"] != b["ci"]:
                if "err" in a["ci"] and "err" in b["ci"] and (a["ci"]["err"] in DECODE_STAGE or b["ci"]["err"] in DECODE_STAGE):
                    # files are decoded in document order: which of several *decoding* errors is met first depends on it
                    ctx.count("both-rejected-different-first-decoding-error")
                    continue
                report_violation(ctx, "determinism:key-order-changes-result", {
                    "case": project_text(p), "permuted": project_text(q), "diff": proj.first_diff(a["ci"], b["ci"]),
                    "expected_by_spec": "identical result", "harness": "parser_h pipeline"})
    # (c) formats: same data as JSON5 and YAML
    for f in ("yaml", "json5"):
        outs = run_projects(ctx, bins[f], projects, fmt=f, want_model=False)
        for p, a, b in zip(projects, base, outs):
            ctx.count("format:" + f)
            ra = a["impl"].get("result", {})
            rb = b["impl"].get("result", {})
            va, vb = text_view(ra), text_view(rb)
            if va != vb:
                if f == "json5" and "error parsing integer" in str(rb.get("msg", "")) and has_integer_beyond_i64(p):
                    # the json5 crate (0.4.1) reads integers as i64: a u64 literal / count above i64::MAX is rejected in that format only
                    report_violation(ctx, "determinism:json5-integer-beyond-i64", {
                        "case": project_text(p), "format": f, "files_in_format": proj.file_list(p, f), "json_result": str(ra)[:300], "other_result": str(rb)[:300]})
                    continue
                report_violation(ctx, "determinism:file-format-changes-result:" + f, {
                    "case": project_text(p), "format": f, "files_in_format": proj.file_list(p, f), "diff": proj.first_diff(va, vb),
                    "json_result": str(ra)[:400], "other_result": str(rb)[:400], "expected_by_spec": "same keys, diagnostics and rendered text"})
    # (d) generated code of two fresh generator processes
    bing = cargo_build(ctx, "codegen_h")
    if bing is not None:
        # (generated projects — several locales, fallbacks, namespaces — and a few of the single-locale corpus ones)
        sub = projects[len(corpus): len(corpus) + ctx.budget(70, 600)] + projects[:10]
        reqs = [dict(proj.harness_req(p), op="codegen", tokens=True) for p in sub]
        g1 = run_lines_resilient(bing, reqs)
        g2 = run_lines_resilient(bing, reqs)
        for p, a, b in zip(sub, g1, g2):
            ctx.count("codegen-twice")
            import re
            na, nb = (re.sub(r"verif_cg_\d+", "verif_cg", json.dumps(x)) for x in (a, b))     # scratch dir carries the pid
            if na != nb:
                report_violation(ctx, "determinism:generated-code-differs-between-runs", {"case": project_text(p), "first": str(a)[:300], "second": str(b)[:300]})
    # (e) the inline declaration macro under key reordering
    declare_probe(ctx, rng, bins["json"])
    ctx.sample({"files": proj.file_list(projects[0]), "yaml": proj.file_list(projects[0], "yaml")[0][1][:300]})
    ctx.assumptions += PARSER_ASSUMPTIONS + ["YAML / JSON5 front-ends are oracles compared through the implementation's own dumps; a front-end specific decoding difference surfaces here, it is not proved absent"]
    finish_broken(ctx, f"{len(projects)} projects x runs x permutations x formats")
    write_evidence(ctx, RULE)
