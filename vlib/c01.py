"""C01 — rendered text is exactly what the translation source says.
Theorems: Theorems/C01.lean (parse∘print denotation, any depth), Theorems/C01Reduce.lean (reduce keeps the denotation).
Correspondence: (P) ParsedValue::new and the whole pipeline vs the Lean model on generated sources; the
denotation of the implementation's final value tree for every string key is compared with `evalSrc` of the
source AST (impl vs spec).  (X) compiled probe crates: see vlib/probe.py — td_string!/td_display!/td! output
of real generated code vs `evalSrc`."""
from .pipe import *
from . import probe
from . import c06
from .c03 import walk, exhaustive_projects

CHAIN_CORPUS = exhaustive_projects()

RULE = ("source ASTs (text / {{var}} with whitespace variants and formatters / <comp> nested incl. same-name nesting) printed to strings, "
        "alone (ParsedValue::new) and as keys of generated projects (subkeys, namespaces, several locales); raw token soup for the model tie; "
        "one compiled probe crate (quick) rendering every string key of a generated project for every locale with 3 argument assignments; "
        "non-trivial = source has at least one variable or component; distinct = distinct source text")


def defined_in_files(p, ns, x, path):
    """does locale `x` define `path` (a key that is absent, or null, anywhere on the way is not defined)"""
    t = p["files"].get((ns, x))
    if t is None:
        return False
    cur = merged_key_tree(t)
    for k in path:
        if not isinstance(cur, dict) or k not in cur:
            return False
        cur = cur[k]
        if cur == "null":
            return False
    return True


def tree_at(tree, path):
    cur = tree
    for k in path:
        if not (isinstance(cur, dict) and "o" in cur):
            return None
        cur = next((v for kk, v in cur["o"] if kk.strip() == k), None)
    return cur


def literal_text(node):
    """the text a literal value denotes: integers in full, floats the way Rust's `Display` prints them (no exponent, no trailing `.0`)"""
    if isinstance(node, bool):
        return "true" if node else "false"
    if isinstance(node, dict) and ("u" in node or "i" in node):
        return str(node.get("u", node.get("i")))
    if isinstance(node, dict) and "f" in node:
        from fractions import Fraction
        return frac_str(Fraction(node["f"]))
    return None


def oracle(ctx, p, o, i):
    """every accessible string key x every locale: the value the generated accessor renders for that locale (the arm of
    `match locale` given by DefaultedLocales::compute, read in the locale's final values) denotes the source text written
    for the key in the *effective* locale (independent walk over `inherits` and the files' presence pattern)"""
    if "ok" not in o["ci"]:
        return
    res = o["impl"]["result"]["ok"]
    cfg = o["impl"]["cfg"]
    inherits, default = dict(cfg["inherits"]), cfg["default"]
    env = Env()
    for ns_out in res["nss"]:
        ns = ns_out["key"]
        for path, lv in iter_bki(ns_out["keys"]):
            if any(plural_split(k) for k in path):
                continue
            arms = {}
            for t, ls in lv["defaults"]["compute"]:
                for x in ls:
                    arms[x] = t
            for l in cfg["locales"]:
                if p["files"].get((ns, l)) is None:
                    continue
                eff = walk(inherits, default, lambda x: defined_in_files(p, ns, x, path), l)
                rec = p["meta"].get((ns, eff, tuple(path)))
                if rec is not None and rec.get("kind") == "lit" and rec.get("presence") == "defined":
                    # a number / boolean written as the whole value: rendered as written (u64 and i64 in full, floats as Rust prints them)
                    node = tree_at(p["files"][(ns, eff)], path)
                    exp = literal_text(node)
                    if exp is None:
                        continue
                    rendered_from = arms.get(l, l)
                    v = locale_value_at(ns_out, rendered_from, path)
                    got = pv_eval(env, v) if v is not None and v["t"] != "default" else None
                    ctx.count("literal_value")
                    if got != exp:
                        report_violation(ctx, "render:literal-differs-from-source", {
                            "case": project_text(p), "namespace": ns, "locale": l, "effective_locale_by_spec": eff, "key_path": list(path),
                            "source": proj.emit_json(node), "expected_by_spec": exp, "implementation": got,
                            "harness": "parser_h pipeline + denotation of the dumped value"})
                    continue
                if rec is None or rec.get("kind") != "string" or rec.get("presence") != "defined" or "src" not in rec:
                    continue
                rendered_from = arms.get(l, l)
                v = locale_value_at(ns_out, rendered_from, path)
                got = pv_eval(env, v) if v is not None and v["t"] != "default" else None
                exp = src_eval(env, rec["src"])
                if l == eff:
                    st = gen.src_stats(rec["src"])
                    ctx.seen({"src": gen.print_src(rec["src"])}, nontrivial=st["var"] + st["comp"] > 0)
                    ctx.count("depth=%d" % st["depth"])
                else:
                    ctx.count("rendered_through_fallback")
                    if eff != default:
                        ctx.count("rendered_through_inherits")
                if got != exp:
                    report_violation(ctx, "render:text-differs-from-source", {
                        "case": project_text(p), "namespace": ns, "locale": l, "effective_locale_by_spec": eff,
                        "match_arm_of_the_implementation": rendered_from, "key_path": list(path), "source": gen.print_src(rec["src"]),
                        "expected_by_spec": exp, "implementation": got, "harness": "parser_h pipeline + denotation of the dumped value"})


def chain_projects(rng, n):
    """C03's family (every inherits map on en/fr/de/es x presence patterns of a value key and a group leaf), with interpolated
    sources and their ASTs recorded: long inheritance chains, forks and cycles for the rendered text"""
    out = []
    for q in rng.sample(CHAIN_CORPUS, n):
        p = dict(q)
        p["files"], p["meta"] = {}, {}
        for (ns, l), tree in q["files"].items():
            def conv(t, prefix):
                pairs = []
                for k, v in t["o"]:
                    path = prefix + (k,)
                    if isinstance(v, dict) and "o" in v:
                        pairs.append([k, conv(v, path)])
                    elif isinstance(v, str):
                        src = [{"k": "text", "s": v + " "}] + gen.gen_src(rng, maxn=2, vars_=["x", "name"], fmts=False)
                        src = gen.fix_text_boundaries(src)
                        p["meta"][(ns, l, path)] = {"kind": "string", "presence": "defined", "src": src}
                        pairs.append([k, gen.print_src(src)])
                    else:
                        pairs.append([k, v])
                return {"o": pairs}
            p["files"][(ns, l)] = conv(tree, ())
        out.append(p)
    return out


def run(ctx):
    for m, pfx in [("I18nVerif.Theorems.C01", "C01_"), ("I18nVerif.Theorems.C01Reduce", "C01_"), ("I18nVerif.Theorems.C01EndToEnd", "C01_")]:
        lean_check(ctx, m, pfx)
    rng = ctx.rng
    binp = build_parser(ctx)
    if binp is None:
        finish_broken(ctx, "harness does not build")
        write_evidence(ctx, RULE)
        return
    # (1) strings: impl vs model (tree equality) and impl vs spec (denotation = evalSrc)
    srcs = [gen.gen_src(rng, maxn=rng.range(1, 6)) for _ in range(ctx.budget(3000, 100000))]
    # non-ASCII identifiers: outside the Lean model (XID tables), but the spec `evalSrc` does not care — impl vs spec only
    srcs += [gen.gen_src(rng, maxn=rng.range(1, 5), fmts=False, vars_=gen.NONASCII_VARS, comp_names=gen.NONASCII_COMPS) for _ in range(ctx.budget(600, 20000))]
    srcs += [gen.gen_long_src(rng, rng.range(20, 70)) for _ in range(ctx.budget(30, 600))]
    corpus = ["<b>x</b >tail", "<b>x</b >", "a <b>b <b>c</b> d</b> e", "{{ x }}{{y}}<i>{{ x }}</i>", "<p>test<h3>this is a h3</h3>not closing p"]
    strings = corpus + [gen.print_src(s) for s in srcs] + [gen.soup(rng) for _ in range(ctx.budget(1000, 20000))]
    impl = run_lines_resilient(binp, [{"op": "parse_new", "s": s} for s in strings], timeout=3600)
    model = lean_driver([{"op": "parse.new", "s": s} for s in strings], timeout=3600)
    env = Env()
    for k, (s, a, m) in enumerate(zip(strings, impl, model)):
        a2 = {x: y for x, y in a.items() if x != "msg"}
        if "panic" in a or "crash" in a:
            report_violation(ctx, "render:parse-panics", {"case": {"op": "parse_new", "s": s}, "impl": a})
            continue
        if a2 != m and not has_nonascii_ident_char(s):
            note_model_mismatch(ctx, "P/parse_new", {"s": s}, {"impl": a2, "model": m})
        j = k - len(corpus)
        if 0 <= j < len(srcs):
            st = gen.src_stats(srcs[j])
            ctx.seen({"s": s}, nontrivial=st["var"] + st["comp"] > 0)
            ctx.count("string-depth=%d" % st["depth"])
            if "ok" not in a:
                if a.get("err") == "UnknownFormatter":
                    ctx.count("string:unknown-formatter")
                    continue
                report_violation(ctx, "render:wellformed-source-rejected", {"case": {"op": "parse_new", "s": s}, "impl": a,
                                                                            "expected_by_spec": "parsed value denoting the source"})
                continue
            got, exp = pv_eval(env, a["ok"]), src_eval(env, srcs[j])
            if got != exp:
                report_violation(ctx, "render:text-differs-from-source", {"case": {"op": "parse_new", "s": s}, "expected_by_spec": exp,
                                                                          "implementation": got, "harness": "parser_h parse_new"})
    ctx.sample({"source": strings[len(corpus)], "denotation": src_eval(env, srcs[0])})
    # (2) projects
    projects = [proj.gen_project(rng, {"fk": False}) for _ in range(ctx.budget(300, 6000))]
    projects += chain_projects(rng, ctx.budget(300, 6000))
    generic_pipeline_check(ctx, [], projects, oracle, "C01")
    # (2b) keys written as references `$t(..)`: the text is the target's, in the same locale, under the arguments (C06's oracles:
    # "nothing taken from another key or locale" must hold through references too)
    fkp = [c06.mk_graph_project(rng) for _ in range(ctx.budget(300, 6000))]
    generic_pipeline_check(ctx, [], fkp, c06.make_oracle(binp), "C01-references")
    generic_pipeline_check(ctx, [], c06.walk_family(rng, ctx.budget(150, 3000)), c06.walk_family_oracle, "C01-references-fallback")
    # (3) compiled probe crates
    probe.run_render_probe(ctx, rng, n_crates=ctx.budget(1, 6), flavours=("string", "display", "view"))
    ctx.assumptions += PARSER_ASSUMPTIONS + probe.ASSUMPTIONS
    finish_broken(ctx, f"{len(strings)} strings, {len(projects)} projects")
    write_evidence(ctx, RULE)
