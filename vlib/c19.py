"""C19 — configuration is validated and normalised as documented.
Theorems: lean/I18nVerif/Theorems/C19.lean (default first, duplicates rejected, inherits validated, required fields,
unknown fields ignored, files read).  Correspondence: `ConfigFile::new` on generated manifests vs the Lean model
`Config.new` vs the property's statement computed independently; which files are opened (tracked files) for
generated directory layouts in the three format builds."""
from .pipe import *
import itertools

RULE = ("all small configurations: locale lists over 4 names with/without the default and with duplicates (exhaustive up to length 3, sampled "
        "above), namespace lists, inherits tables, optional and unknown fields, wrong field types, whitespace in names, surrounding manifest "
        "content before and after the section; plus directory layouts x 3 formats for the files-read part; non-trivial = the configuration "
        "is accepted or rejected for a reason other than a missing section; distinct = distinct manifest text")
NAMES = ["en", "fr", "de", "en-US"]


def toml_val(v):
    if isinstance(v, str):
        return json.dumps(v)
    if isinstance(v, list):
        return "[" + ", ".join(toml_val(x) for x in v) + "]"
    if isinstance(v, dict):
        return "{ " + ", ".join(f"{json.dumps(k)} = {toml_val(x)}" for k, x in v.items()) + " }"
    if isinstance(v, bool):
        return "true" if v else "false"
    return str(v)


def to_tv(v):
    if isinstance(v, str):
        return v
    if isinstance(v, list):
        return [to_tv(x) for x in v]
    if isinstance(v, dict):
        return {"t": [[k, to_tv(x)] for k, x in v.items()]}
    return None      # numbers / bools: `.other`


# the rest of Cargo.toml is ignored — also when it *mentions* the section header (a comment, a description, another tool's table)
HEADER_MENTIONS_BEFORE = ["# the i18n settings are in [package.metadata.leptos-i18n] below\n",
                          "description = \"configured by [package.metadata.leptos-i18n]\"\n",
                          "\n[package.metadata.docs]\nnote = \"[package.metadata.leptos-i18n] holds the locales\"  # [package.metadata.leptos-i18n]\n"]
HEADER_MENTIONS_AFTER = ["\n# see [package.metadata.leptos-i18n] above\n",
                         "\n[package.metadata.other]\nnote = \"see [package.metadata.leptos-i18n]\"\n",
                         "\n[package.metadata.other]\n# like [package.metadata.leptos-i18n]\ndefault = \"zz\"\nlocales = [\"zz\"]\n"]


def manifest(fields, before="", after="", section=True):
    s = '[package]\nname = "p"\nversion = "0.1.0"\n' + before
    if section:
        s += "\n[package.metadata.leptos-i18n]\n" + "".join(f"{k} = {toml_val(v)}\n" for k, v in fields)
    s += after
    return s


def spec(fields):
    """the property's statement on the decoded table: ('ok', cfg) or ('err', reason)"""
    d = {}
    for k, v in fields:
        if k in d and k in ("default", "locales", "namespaces", "locales-dir", "translations-path", "inherits"):
            return ("err", "duplicate field")
        d[k] = v

    def key(x):
        if not isinstance(x, str):
            return None
        n = x.strip().replace("-", "_")
        kw = {"type", "fn", "self", "_", "as", "in", "if", "do", "use", "mod", "pub", "let", "for"}
        if n and (n[0].isalpha() or n[0] == "_") and all(c.isalnum() or c == "_" for c in n) and n not in kw and n.isascii():
            return x.strip()
        return None
    if "default" not in d or "locales" not in d:
        return ("err", "missing required field")
    default = key(d["default"])
    if default is None or not isinstance(d["locales"], list):
        return ("err", "bad type")
    locales = [key(x) for x in d["locales"]]
    if any(x is None for x in locales):
        return ("err", "bad locale")
    ns = None
    if "namespaces" in d:
        if not isinstance(d["namespaces"], list):
            return ("err", "bad type")
        ns = [key(x) for x in d["namespaces"]]
        if any(x is None for x in ns):
            return ("err", "bad namespace")
    for f in ("locales-dir", "translations-path"):
        if f in d and not isinstance(d[f], str):
            return ("err", "bad type")
    inherits = {}
    if "inherits" in d:
        if not isinstance(d["inherits"], dict):
            return ("err", "bad type")
        for k, v in d["inherits"].items():
            kk, vv = key(k), key(v)
            if kk is None or vv is None:
                return ("err", "bad inherits")
            inherits[kk] = vv
    known = set(locales) | {default}
    if any(k not in known or v not in known for k, v in inherits.items()):
        return ("err", "unknown locale in inherits")
    if default in inherits:
        return ("err", "default inherits")
    allloc = locales if default in locales else locales + [default]
    if len(set(allloc)) != len(allloc):
        return ("err", "duplicate locales")
    if ns is not None and len(set(ns)) != len(ns):
        return ("err", "duplicate namespaces")
    return ("ok", {"default": default, "locale_set": sorted(allloc), "namespaces": ns, "locales_dir": d.get("locales-dir", "locales"),
                   "inherits": sorted(inherits.items())})


def gen_cases(ctx, rng):
    cases = []
    # exhaustive: locale lists up to length 3 over NAMES x default in NAMES
    for n in range(0, 4):
        for ls in itertools.product(NAMES, repeat=n):
            for d in NAMES[:3]:
                cases.append(([("default", d), ("locales", list(ls))], "", ""))
    k = len(cases)
    ctx.extra["exhaustive_part"] = f"{k} (default, locales) pairs: all lists of length <= 3 over 4 names x 3 defaults"
    for _ in range(ctx.budget(2500, 40000)):
        ls = [rng.pick(NAMES + [" fr ", "es", "type", "x y", ""]) for _ in range(rng.range(0, 4))]
        d = rng.pick(NAMES + [" en", "it"])
        fields = [("default", d), ("locales", ls)]
        if rng.chance(1, 3):
            fields.append(("namespaces", [rng.pick(["common", "home", "admin", "common"]) for _ in range(rng.range(0, 3))]))
        if rng.chance(1, 2):
            inh = {}
            for _ in range(rng.range(1, 2)):
                inh[rng.pick(NAMES + ["it"])] = rng.pick(NAMES + ["it"])
            fields.append(("inherits", inh))
        if rng.chance(1, 4):
            fields.append(("locales-dir", rng.pick(["locales", "./i18n", "a/b"])))
        if rng.chance(1, 4):
            fields.append((rng.pick(["unknown", "some-field", "Default", "locale"]), rng.pick(["x", 5, True, ["a"], {"k": "v"}])))
        if rng.chance(1, 10):
            fields.append(("translations-path", "i18n/{locale}.json"))
        if rng.chance(1, 12):
            fields = [f for f in fields if f[0] != rng.pick(["default", "locales"])]
        if rng.chance(1, 15):
            i = rng.below(len(fields)) if fields else 0
            if fields:
                fields[i] = (fields[i][0], rng.pick([5, True, "str", ["a", 1]]))
        fields = rng.shuffle(fields)
        before = rng.pick(["", "", "\n[dependencies]\nserde = \"1\"\n", "\n[package.metadata.other]\ndefault = \"zz\"\n"] + HEADER_MENTIONS_BEFORE)
        after = rng.pick(["", "", "\n[dependencies]\nleptos = \"0.7\"\n", "\n[package.metadata.leptos-i18n.extra]\nx = 1\n", "\n[features]\ndefault = []\n"] + HEADER_MENTIONS_AFTER)
        cases.append((fields, before, after))
    return cases


def default_first_stage(ctx, rng, binp):
    """`ConfigFile::new` on every (default, locales) with the default at each position of lists up to length 5: the default locale
    is first in the result (what `Locale::default()` and the no-match answer of the negotiation are)"""
    names = ["en", "fr", "de", "it", "es"]
    reqs, exp = [], []
    for n in range(1, 6):
        for d in range(n):
            ls = names[:n]
            dflt = ls[d]
            reqs.append({"op": "config", "cargo_toml": manifest([("default", dflt), ("locales", ls)], "", ""), "files": []})
            exp.append(dflt)
    outs = run_lines_resilient(binp, reqs)
    for q, r, d in zip(reqs, outs, exp):
        ctx.count("default-position-cases")
        got = r.get("ok", {}).get("locales") if isinstance(r.get("ok"), dict) else None
        if not got or got[0] != d or r["ok"].get("default") != d:
            report_violation(ctx, "config:default-not-first", {"case": q, "expected_by_spec": {"default": d, "first locale": d}, "implementation": r})


HDR = "[package.metadata.leptos-i18n]"
# blanks `str::trim_start` removes (Unicode White_Space) and look-alikes it keeps (zero-width space, BOM)
BLANKS = [" ", "  ", "\t", " \t ", "\u00a0", "\u3000", "\u2003 ", "\x0b", "\x0c", "\u2028", "\u0085", "\r"]
NOT_BLANKS = ["\u200b", "\ufeff", "#", "x", "\"", "[", "."]
SECTION_LINES = [HDR, HDR + " # c", HDR + "x", HDR + HDR, HDR + "]", HDR[:-1], HDR[:-1] + ".extra]", "[" + HDR + "]", HDR.upper(), HDR.replace("-", "_"),
                 "# " + HDR, "note = \"" + HDR + "\"", "x " + HDR, "default = \"en\"", "locales = [\"en\"]", "", "[package]", "[dependencies]",
                 "a = 1  # see " + HDR]
EOLS = ["\n", "\n", "\n", "\r\n", "\r", ""]


def gen_manifest_text(rng):
    out = []
    for _ in range(rng.range(0, 7)):
        line = rng.pick(SECTION_LINES)
        r = rng.below(10)
        if r < 3:
            line = rng.pick(BLANKS) + line
        elif r < 4:
            line = rng.pick(NOT_BLANKS) + line
        elif r < 5:
            line = rng.pick(BLANKS) + rng.pick(BLANKS) + line
        out.append(line + rng.pick(EOLS))
    return "".join(out)


RUST_WS = set("\t\n\x0b\x0c\r \x85\xa0\u1680\u2028\u2029\u202f\u205f\u3000") | {chr(c) for c in range(0x2000, 0x200b)}


def spec_split(text):
    """the statement: the section starts at the first line (lines end at a line feed) whose first non-blank text is the header"""
    pos = 0
    for line in text.split("\n"):
        i = 0
        while i < len(line) and line[i] in RUST_WS:
            i += 1
        if line.startswith(HDR, i):
            return text[:pos + i], text[pos + i + len(HDR):]
        pos += len(line) + 1
    return None


def section_stage(ctx, rng, binp):
    """the textual step before TOML decoding: `split_at_config_section` (extracted from /repo's source at build time) vs the Lean model
    `Manifest.splitAtSection` vs the statement; then `ConfigFile::new` end to end: mentions of the header around the section change nothing,
    and the line reported for a syntax error inside the section is the line of Cargo.toml (model: `Manifest.whitespaced`)"""
    texts = ["", HDR, " " + HDR, "# " + HDR + "\n" + HDR + "\n", "\u200b" + HDR, "\u2028" + HDR + "\n", "a\r" + HDR + "\n", "\n\n \t" + HDR + "x\n" + HDR,
             "x = \"" + HDR + "\"\n"]
    texts += [gen_manifest_text(rng) for _ in range(ctx.budget(3000, 60000))]
    impl = run_lines_resilient(binp, [{"op": "manifest_split", "text": t} for t in texts])
    model = lean_driver([{"op": "manifest.split", "text": t} for t in texts])
    if impl and "unavailable" in impl[0]:
        note_model_mismatch(ctx, "P/manifest.split", "cfg_file.rs", impl[0]["unavailable"] + ": the model of the section split is no longer tied to the code")
    else:
        for t, r, m in zip(texts, impl, model):
            sp = spec_split(t)
            ctx.seen({"manifest_text": t}, nontrivial=sp is not None and (HDR in sp[0] or HDR in sp[1] or sp[0].strip() != ""))
            ctx.count("section:" + ("found" if sp else "absent"))
            if "panic" in r or "crash" in r:
                report_violation(ctx, "config:section-split-panics", {"manifest": t, "implementation": r})
                continue
            ri = None if r.get("absent") else (r["before"], r["after"])
            mi = None if m.get("absent") else (m["before"], m["after"])
            if ri != mi:
                note_model_mismatch(ctx, "P/manifest.split", {"manifest": t}, {"impl": ri, "model": mi})
            if mi != sp:
                raise HarnessError("Lean model of the section split and its python statement disagree on " + json.dumps(t))
            if mi is not None and m["whitespaced"] != "\n" * mi[0].count("\n") + mi[1]:
                raise HarnessError("Lean `whitespaced` differs from its statement on " + json.dumps(t))
    # ---- end to end: `ConfigFile::new`
    reqs, metas = [], []
    mention_lines = ["# " + HDR, "   # the section is " + HDR, "note = \"" + HDR + "\"", "note = '" + HDR + "'  # " + HDR, "\t# " + HDR + HDR,
                     "keywords = [\"" + HDR + "\"]", "", "# plain comment", "x = 1"]
    for _ in range(ctx.budget(400, 6000)):
        nb, na = rng.range(0, 6), rng.range(0, 4)
        before = "".join(rng.pick(mention_lines) + "\n" for _ in range(nb))
        if rng.chance(1, 3):
            before += "\n[package.metadata.other]\n" + "".join(rng.pick(mention_lines) + "\n" for _ in range(rng.range(0, 3)))
        indent = rng.pick(["", "", " ", "\t", "    "])
        trailer = rng.pick(["", "", " ", "  # " + HDR])
        dflt = rng.pick(["en", "fr", "de"])
        locs = rng.sample(["en", "fr", "de"], rng.range(1, 3))
        body = [f'default = "{dflt}"', "locales = " + toml_val(locs)]
        nblank = rng.range(0, 3)
        body = [""] * nblank + body
        after = "".join("# " + rng.pick(mention_lines) + "\n" for _ in range(na))
        bad_at = None
        if rng.chance(1, 2):
            bad_at = rng.below(len(body) + 1)
            body.insert(bad_at, "namespaces = = [\"zz9\"]")
        eol = rng.pick(["\n", "\n", "\r\n"])
        text = ('[package]\nname = "p"\nversion = "0.1.0"\n' + before + indent + HDR + trailer + "\n" + "".join(b + "\n" for b in body) + after).replace("\n", eol)
        reqs.append({"op": "config", "cargo_toml": text, "files": []})
        metas.append((dflt, locs, bad_at))
    # multi-line TOML strings before the section: a line of the string that *starts* with the header text (finding C19-multiline-string:
    # the search is textual), and control cases where the mention is not at the start of a line of the string
    head = '[package]\nname = "p"\nversion = "0.1.0"\n'
    tail = "\n" + HDR + '\ndefault = "fr"\nlocales = ["en", "fr"]\n'
    for q3 in ('"""', "'''"):
        for inner, starts in ((HDR + "\nholds the locales", True), ("  " + HDR + " holds the locales\n", True),
                              ("the locales are in " + HDR + "\n", False), ("see\n- " + HDR + "\nbelow", False)):
            reqs.append({"op": "config", "cargo_toml": head + "description = " + q3 + "\n" + inner + q3 + "\n" + tail, "files": []})
            metas.append(("fr", ["en", "fr"], "multiline-string" if starts else None))
    impl = run_lines_resilient(binp, reqs)
    model = lean_driver([{"op": "manifest.split", "text": q["cargo_toml"]} for q in reqs])
    for q, (dflt, locs, bad_at), r, m in zip(reqs, metas, impl, model):
        text = q["cargo_toml"]
        if bad_at == "multiline-string":
            ctx.seen({"toml": text}, nontrivial=True)
            ctx.count("section-e2e:header-line-inside-multiline-string")
            got = r.get("ok", {}).get("locales") if isinstance(r.get("ok"), dict) else None
            if got != ["fr", "en"]:
                report_violation(ctx, "config:rest-of-manifest-not-ignored:header-line-inside-multiline-string",
                                 {"case": q, "expected_by_spec": {"default": "fr", "locales (default first)": ["fr", "en"]}, "implementation": r})
            continue
        ctx.seen({"toml": text}, nontrivial=True)
        if "panic" in r or "crash" in r:
            report_violation(ctx, "config:panics", {"case": q, "impl": r})
            continue
        if bad_at is None:
            ctx.count("section-e2e:valid")
            want = [dflt] + [l for l in locs if l != dflt]
            got = r.get("ok", {}).get("locales") if isinstance(r.get("ok"), dict) else None
            if got is None or got[0] != dflt or sorted(got) != sorted(want):
                report_violation(ctx, "config:rest-of-manifest-not-ignored", {"case": q, "expected_by_spec": {"default": dflt, "locales (default first)": want},
                                                                              "implementation": r})
        else:
            ctx.count("section-e2e:syntax-error")
            if "ok" in r:
                report_violation(ctx, "config:invalid-configuration-accepted", {"case": q, "expected_by_spec": "a TOML syntax error in the section is reported", "implementation": r})
                continue
            line_in_file = text[:text.index("= = ")].count("\n") + 1
            w = m.get("whitespaced")
            line_in_model = None if w is None else w[:w.index("= = ")].count("\n") + 1
            mm = re.search(r"line (\d+), column", r.get("msg", ""))
            line_in_impl = int(mm.group(1)) if mm else None
            if line_in_model != line_in_file:
                raise HarnessError("C19_line_numbers_kept contradicted by the driver on " + json.dumps(text))
            if r.get("err") != "ConfigFileDeser" or line_in_impl != line_in_model:
                note_model_mismatch(ctx, "P/manifest.whitespaced", q, {"impl": {"err": r.get("err"), "line reported": line_in_impl, "msg": r.get("msg")},
                                                                        "model": {"err": "ConfigFileDeser", "line of the error in the text handed to the TOML parser": line_in_model}})


def run(ctx):
    lean_check(ctx, "I18nVerif.Theorems.C19", "C19_")
    lean_check(ctx, "I18nVerif.Theorems.C19Section", "C19_")
    lean_check(ctx, "I18nVerif.Theorems.C19SectionRest", "C19_")
    lean_check(ctx, "I18nVerif.Theorems.C19ManifestConfig", "C19_")
    rng = ctx.rng
    binp = build_parser(ctx)
    if binp is None:
        finish_broken(ctx, "harness does not build")
        write_evidence(ctx, RULE)
        return
    default_first_stage(ctx, rng, binp)
    section_stage(ctx, rng, binp)
    cases = gen_cases(ctx, rng)
    corpus = [([("default", "en"), ("locales", ["fr"]), ("inherits", {"fr": "en"})], "", "")]     # F12
    corpus += [([("default", "en"), ("locales", ["en", "fr"])], b, "") for b in HEADER_MENTIONS_BEFORE]      # C19-header-mention
    corpus += [([("default", "en"), ("locales", ["en", "fr"])], "", a) for a in HEADER_MENTIONS_AFTER]
    cases = corpus + cases
    reqs = [{"op": "config", "cargo_toml": manifest(f, b, a), "files": []} for f, b, a in cases]
    # the same manifests saved with CRLF line endings (every 5th, and all of the corpus): the answer does not depend on the line ending
    crlf = list(range(len(corpus))) + list(range(len(corpus), len(cases), 5))
    for i in crlf:
        cases.append(cases[i])
        reqs.append({"op": "config", "cargo_toml": reqs[i]["cargo_toml"].replace("\n", "\r\n"), "files": [], "crlf": True})
    reqs.append({"op": "config", "cargo_toml": manifest([], section=False), "files": []})
    impl = run_lines_resilient(binp, reqs)
    mreqs = [{"op": "config.new", "table": [[k, to_tv(v)] for k, v in f]} for f, b, a in cases]
    model = lean_driver(mreqs)
    for (f, b, a), r, m, q in zip(cases, impl, model, reqs):
        ctx.seen({"toml": q["cargo_toml"]}, nontrivial=True)
        if "panic" in r or "crash" in r:
            report_violation(ctx, "config:panics", {"case": q, "impl": r})
            continue
        sp = spec(f)
        # extra sections after ours change the decoded table (sub-tables of our section become fields): skip those for the spec
        has_sub = "leptos-i18n.extra" in a
        dup_toml = len({k for k, _ in f}) != len(f)
        kind = "ok" if "ok" in r else "err:" + r.get("err", "?")
        ctx.count("impl:" + kind)
        ctx.count("spec:" + sp[0] + (":" + sp[1] if sp[0] == "err" else ""))
        if dup_toml:
            continue       # the TOML parser itself rejects duplicate keys (oracle)
        # impl vs model
        if "ok" in r:
            mi = {"ok": {k: r["ok"][k] for k in ("default", "locales", "namespaces", "locales_dir", "inherits")}}
        else:
            mi = {"err": r["err"]}
        if mi != m and not has_sub:
            note_model_mismatch(ctx, "P/config", q, {"impl": mi, "model": m})
        # impl vs spec
        if sp[0] == "ok":
            c = sp[1]
            if "ok" not in r:
                report_violation(ctx, "config:valid-configuration-rejected", {"case": q, "expected_by_spec": c, "implementation": r})
                continue
            g = r["ok"]
            bad = None
            if not g["locales"] or g["locales"][0] != c["default"] or g["default"] != c["default"]:
                bad = "default locale is not first"
            elif sorted(g["locales"]) != c["locale_set"]:
                bad = "locale set differs"
            elif g["namespaces"] != c["namespaces"]:
                bad = "namespaces differ"
            elif g["locales_dir"] != c["locales_dir"]:
                bad = "locales-dir differs"
            elif sorted(map(tuple, g["inherits"])) != c["inherits"]:
                bad = "inherits differs"
            if bad:
                report_violation(ctx, "config:" + bad.replace(" ", "-"), {"case": q, "expected_by_spec": c, "implementation": g})
        else:
            if "ok" in r:
                report_violation(ctx, "config:invalid-configuration-accepted", {"case": q, "expected_by_spec": sp[1], "implementation": r["ok"]})
    if "ok" in impl[-1] or impl[-1].get("err") != "ConfigNotPresent":
        report_violation(ctx, "config:missing-section-not-reported", {"case": reqs[-1], "implementation": impl[-1]})
    ctx.sample({"toml": reqs[200]["cargo_toml"], "impl": impl[200]})
    # ---- files read: tracked files for generated layouts in the three formats
    for fmt in ("json", "yaml", "json5"):
        b = build_parser(ctx, fmt)
        if b is None:
            continue
        ps = [proj.gen_project(rng, {"fk": False}) for _ in range(ctx.budget(40, 400))]
        for p in ps:
            # YAML: each file is named `.yaml` or `.yml` (both are documented)
            p["yml"] = {k for k in p["files"] if rng.chance(1, 2)}
        # the `locales-dir` option: a dot-directory, a nested one, the documented `./dir` spelling, a directory shared outside the crate
        for d in (".i18n", "./loc", "a/b", "../shared/locales", "i18n"):
            q = proj.gen_project(rng, {"fk": False})
            q["locales_dir"] = d
            ps.append(q)
        # an explicitly empty namespace list: nothing is read, whatever lies in the directory
        for _ in range(3):
            q = proj.gen_project(rng, {"fk": False})
            q["namespaces"] = []
            ps.append(q)
        outs = run_lines_resilient(b, [proj.harness_req(p, fmt) for p in ps])
        for p, r in zip(ps, outs):
            if p.get("namespaces") == [] and ("tracked" not in r or "cfg" not in r):
                report_violation(ctx, "config:empty-namespace-list-reads-files", {"case": project_text(p), "format": fmt, "implementation": r.get("result", r),
                                                                                 "expected_by_spec": "no file is read: there is no (namespace, locale) pair"})
                continue
            if r.get("result", {}).get("err") == "LocaleFileNotFound":
                # every (namespace, locale) file of the configuration was written, under an accepted extension
                report_violation(ctx, "config:existing-file-not-found", {"case": project_text(p), "format": fmt, "files_written": [f for f, _ in proj.file_list(p, fmt)],
                                                                        "implementation": r["result"], "expected_by_spec": "the file of every configured (namespace, locale) pair is found and read"})
                continue
            if "tracked" not in r or "cfg" not in r:
                continue
            cfg = r["cfg"]
            ext = lambda ns, l: proj.file_ext(p, fmt, ns, l)
            if cfg["namespaces"] is not None:
                exp = [f"{cfg['locales_dir']}/{l}/{ns}.{ext(ns, l)}" for ns in cfg["namespaces"] for l in cfg["locales"]]
            else:
                exp = [f"{cfg['locales_dir']}/{l}.{ext(None, l)}" for l in cfg["locales"]]
            ctx.seen({"files_read": exp, "fmt": fmt})
            ctx.count("files-read:" + fmt)
            if r["tracked"] != exp:
                report_violation(ctx, "config:files-read", {"case": project_text(p), "format": fmt, "expected_by_spec": exp, "implementation": r["tracked"]})
    # per-format file extensions: a file that only exists under another format's extension is not this build's file
    other_exts = {"json": ["json5", "yaml", "yml"], "yaml": ["json", "json5"], "json5": ["json", "yaml", "yml"]}
    for fmt in ("json", "yaml", "json5"):
        b = build_parser(ctx, fmt)
        if b is None:
            continue
        reqs2, metas = [], []
        for _ in range(ctx.budget(40, 600)):
            locs = rng.sample(["en", "fr", "de", "pt-BR"], rng.range(1, 3))
            nss = rng.pick([None, None, ["common", "home"]])
            p = {"default": locs[0], "locales": locs, "all_locales": locs, "namespaces": nss, "inherits": {}, "extra_cfg": False, "meta": {},
                 "files": {(ns, l): proj.O([("k", f"text {l}")]) for ns in (nss or [None]) for l in locs}}      # (every file is valid: the only thing wrong is one extension)
            q = proj.harness_req(p, fmt)
            if not q["files"]:
                continue
            i = rng.below(len(q["files"]))
            rel, text = q["files"][i]
            stem, _, ext = rel.rpartition(".")
            wrong = rng.pick(other_exts[fmt])
            q["files"][i] = [stem + "." + wrong, text]
            reqs2.append(q)
            metas.append((p, rel, stem + "." + wrong))
        for (p, rel, wrong), r in zip(metas, run_lines_resilient(b, reqs2)):
            ctx.seen({"wrong_extension": wrong, "fmt": fmt, "cfg": proj.cargo_toml(p)})
            ctx.count("wrong-extension:" + fmt)
            res = r.get("result", r)
            if res.get("err") != "LocaleFileNotFound":
                report_violation(ctx, "config:file-of-another-format-read", {
                    "case": project_text(p), "format": fmt, "missing_file": rel, "file_present_instead": wrong, "implementation": str(res)[:300],
                    "expected_by_spec": "error LocaleFileNotFound: only the extensions of the build's own format name this build's files"})
    ctx.assumptions += ["the TOML parser is an oracle: the model and the spec start from the decoded table; duplicate TOML keys are rejected by the parser itself",
                        "identifier validity of names as in Key.new (ASCII)",
                        "hypothesis `hnl` of C19_manifest_before_ignored (a blank first line does not change what the TOML parser decodes) is an assumption about the "
                        "third-party parser, exercised by the end-to-end stage (0-6 lines and other tables before the section)"]
    finish_broken(ctx, f"{len(cases)} configurations")
    write_evidence(ctx, RULE)
