"""Shared machinery of the checks that go through the parser pipeline (harness kind P)."""
from .common import *
import re
from . import gen, proj

PARSER_ASSUMPTIONS = [
    "serde_json/serde_yaml/json5/toml decoding are oracles: the model starts from the decoded tree written by the generator",
    "syn::Ident validity modelled for ASCII identifiers + keyword table; non-ASCII XID identifiers, Rust comments inside a candidate identifier (`{{ x //c }}`) and raw identifiers are outside the model (cases where they matter are counted as unmodelled)",
    "ICU4X plural rules (categories(), category_for) are an oracle supplied by the harness for the exercised points",
    "floats are exact decimals in the model; generators avoid values where f32/f64 rounding merges distinct decimals",
    "byte offsets vs character offsets: the model counts characters; the byte arithmetic of the code is exercised with multibyte characters next to every delimiter",
]


def build_parser(ctx, fmt="json", suppress=False):
    feats = [fmt] + (["suppress"] if suppress else [])
    variant = None if feats == ["json"] else "-".join(feats)
    return cargo_build(ctx, "parser_h", features=feats if variant else None, variant=variant)


_IDENT_CTX = re.compile(r"\{\{(.*?)\}\}|<([^<>]*)>|\$t\(([^,)]*)", re.S)


def has_nonascii_ident_char(s):
    """inputs on which `syn::Ident` parsing is outside the model of Key.new: non-ASCII XID characters, Rust comments inside
    the candidate identifier (`var_//x` lexes as the identifier `var_` followed by a comment) and raw identifiers.
    Only the places where an identifier is read count: inside `{{ }}`, inside `< >`; unbalanced leftovers (`{{` or `<`
    without their closing delimiter) are judged to the end of the string."""
    def odd(t):
        return any(ord(c) > 127 and ("a" + c).isidentifier() for c in t) or "//" in t or "/*" in t or "r#" in t
    rest = s
    for m in _IDENT_CTX.finditer(s):
        if odd(m.group(1) or m.group(2) or m.group(3) or ""):
            return True
    rest = _IDENT_CTX.sub(" ", s)
    for opener in ("{{", "<"):
        i = rest.find(opener)
        if i >= 0 and odd(rest[i:]):
            return True
    return False


def project_unmodelled(p):
    """a project is outside the identifier model when a key name, or an identifier position of one of its strings, is"""
    def key_odd(k):
        return any(ord(c) > 127 for c in k) or "//" in k or "/*" in k or "r#" in k

    def walk(j):
        if isinstance(j, str):
            return has_nonascii_ident_char(j)
        if isinstance(j, dict):
            if "o" in j:
                return any(key_odd(k) or walk(v) for k, v in j["o"])
            if "a" in j:
                return any(walk(v) for v in j["a"])
        return False
    return any(walk(t) for t in p["files"].values())


def run_projects(ctx, binp, projects, fmt="json", suppress=False, want_model=True):
    """returns list of dicts {impl, model, ci, cm} (canonicalised results)"""
    impl = run_lines_resilient(binp, [proj.harness_req(p, fmt) for p in projects], timeout=3600)
    reqs, idx = [], []
    out = [{"impl": r, "model": None} for r in impl]
    for i, (p, r) in enumerate(zip(projects, impl)):
        if "crash" in r or "panic" in r:
            continue
        m = proj.model_req(p, r, suppress) if want_model else None
        if m is not None:
            reqs.append(m)
            idx.append(i)
    model = lean_driver(reqs, timeout=3600) if reqs else []
    for i, m in zip(idx, model):
        out[i]["model"] = m
    for o in out:
        r = o["impl"]
        o["ci"] = proj.canon_result(r["result"]) if "result" in r else {"panic": True}
        o["cm"] = proj.canon_result(o["model"]) if o["model"] is not None else None
    return out


def project_text(p):
    return {"cargo_toml": proj.cargo_toml(p), "files": proj.file_list(p)}


def note_model_mismatch(ctx, name, case, detail):
    if not any(b["name"] == name for b in ctx.broken):
        ctx.broken.append({"kind": "correspondence", "name": name, "detail": {"case": case, "diff": detail}})
    ctx.extra["impl_vs_model_mismatches"] = ctx.extra.get("impl_vs_model_mismatches", 0) + 1


def compare_model(ctx, name, p, o):
    """impl vs model on one project; returns True when they agree (or the case is outside the model)"""
    if o["cm"] is None:
        return True
    if o["ci"] == o["cm"]:
        return True
    if project_unmodelled(p):
        ctx.count("unmodelled_nonascii_ident")
        return True
    note_model_mismatch(ctx, name, project_text(p), proj.first_diff(o["ci"], o["cm"]))
    return False


# ---- evaluation of dumped value trees (python mirror of Spec/Eval.lean, used as the property oracle on
# ---- the implementation's own output) ---------------------------------------------------------------

def dec_of(text):
    from fractions import Fraction
    return Fraction(text)


def range_contains(r, c):
    k = r["r"]
    if k == "exact":
        return dec_of(r["v"]) == c
    if k == "fallback":
        return True
    if k == "multi":
        return any(range_contains(x, c) for x in r["items"])
    if r["start"] is not None and c < dec_of(r["start"]):
        return False
    e = r["end"]
    if e["b"] == "incl":
        return c <= dec_of(e["v"])
    if e["b"] == "excl":
        return c < dec_of(e["v"])
    return True


def lit_display(l):
    k = l["k"]
    if k == "str":
        return l["s"]
    if k == "bool":
        return "true" if l["v"] else "false"
    if k == "float":
        return l["d"]
    return str(l["v"])


class Env:
    """environment of the denotation, as data (so that the Lean specification can re-evaluate every use):
    vars: key -> text; other variables render as var_default[0] + key (+ "|formatter") + var_default[1];
    components render as comp[0] + tag + comp[1] + children + comp[2] (+ tag if close_tag) + comp[3];
    counts: key -> number (count_default otherwise); cats: (rule, count) -> CLDR category (cat_default otherwise)"""

    def __init__(self, vars=None, var_default=("⟦", "⟧"), var_fmt=True, comp=("⟨", "⟩", "⟨/", "⟩"), close_tag=True, tags=None,
                 counts=None, count_default=0, cats=None, cat_default="other"):
        from fractions import Fraction
        self.vars = dict(vars or {})
        self.var_default = tuple(var_default)
        self.var_fmt = var_fmt
        self.comp_t = tuple(comp)
        self.close_tag = close_tag
        self.tags = dict(tags or {})
        self.counts = {k: Fraction(v) for k, v in (counts or {}).items()}
        self.count_default = Fraction(count_default)
        self.cats = {(r, Fraction(c)): f for (r, c), f in (cats or {}).items()}
        self.cat_default = cat_default
        self.side_text = "SIDE"
        self._json = None

    def var(self, k, f):
        if k in self.vars:
            return self.vars[k]
        return self.var_default[0] + k + (("|" + f["f"]) if (self.var_fmt and f["f"] != "none") else "") + self.var_default[1]

    def comp(self, k, inner):
        t = self.tags.get(k, k)
        return self.comp_t[0] + t + self.comp_t[1] + inner + self.comp_t[2] + (t if self.close_tag else "") + self.comp_t[3]

    def count(self, k):
        return self.counts.get(k, self.count_default)

    def cat(self, rule, c):
        return self.cats.get((rule, c), self.cat_default)

    def derive(self, **kw):
        e = Env(vars=self.vars, var_default=self.var_default, var_fmt=self.var_fmt, comp=self.comp_t, close_tag=self.close_tag, tags=self.tags,
                counts=self.counts, count_default=self.count_default, cat_default=self.cat_default)
        e.cats = dict(self.cats)
        e.side_text = self.side_text
        for k, v in kw.items():
            setattr(e, k, v)
        e._json = None
        return e

    def to_json(self):
        if self._json is None:
            self._json = json.dumps({
                "vars": sorted([k, v] for k, v in self.vars.items()), "var_default": list(self.var_default), "var_fmt": self.var_fmt,
                "comp": list(self.comp_t), "close_tag": self.close_tag, "tags": sorted([k, v] for k, v in self.tags.items()),
                "counts": sorted([k, frac_str(v)] for k, v in self.counts.items()), "count_default": frac_str(self.count_default),
                "cats": sorted([r, frac_str(c), f] for (r, c), f in self.cats.items()), "cat_default": self.cat_default}, ensure_ascii=False)
        return self._json


def frac_str(v):
    """exact decimal text of a fraction with a power-of-ten-friendly denominator"""
    from fractions import Fraction
    v = Fraction(v)
    if v.denominator == 1:
        return str(v.numerator)
    d, e = v.denominator, 0
    num = v.numerator
    while d % 10 != 1 and e < 40 and (10 ** e) % d != 0:
        e += 1
    scaled = num * (10 ** e) // d
    sign = "-" if scaled < 0 else ""
    digits = str(abs(scaled)).rjust(e + 1, "0")
    return sign + digits[:-e] + "." + digits[-e:]


EVAL_LOG = []          # (env json, tree, text) triples produced by pv_eval at top level, re-evaluated by Lean at the end
EVAL_LOG_LIMIT = 30000
_depth = [0]


def pv_eval(env, v):
    _depth[0] += 1
    try:
        r = _pv_eval(env, v)
    finally:
        _depth[0] -= 1
    if _depth[0] == 0 and len(EVAL_LOG) < EVAL_LOG_LIMIT and isinstance(env, Env):
        EVAL_LOG.append((env.to_json(), v, r))
    return r


def _pv_eval(env, v):
    t = v["t"]
    if t == "lit":
        return lit_display(v)
    if t == "var":
        return env.var(v["key"], v["fmt"])
    if t == "comp":
        return env.comp(v["key"], pv_eval(env, v["inner"]))
    if t == "bloc":
        return "".join(pv_eval(env, x) for x in v["items"])
    if t == "fk":
        return pv_eval(env, v["inner"]) if v.get("set") else ""
    if t == "ranges":
        c = env.count(v["count_key"])
        for r, b in v["branches"]:
            if range_contains(r, c):
                return pv_eval(env, b)
        return ""
    if t == "plurals":
        f = env.cat(v["rule"], env.count(v["count_key"]))
        for name, b in v["forms"]:
            if name == f:
                return pv_eval(env, b)
        return pv_eval(env, v["other"])
    return ""


def src_eval(env, items):
    out = []
    for it in items:
        if it["k"] == "text":
            out.append(it["s"])
        elif it["k"] == "var":
            f = {"f": "none"}
            if it.get("fmt"):
                f = {"f": it["fmt"]["name"]}
            out.append(env.var("var_" + it["name"].strip(), f))
        else:
            out.append(env.comp("comp_" + it["name"].strip(), src_eval(env, it["kids"])))
    return "".join(out)


def locale_keys(loc):
    return {k: v for k, v in loc["keys"]}


def find_locale(ns_out, name):
    for l in ns_out["locales"]:
        if l["name"] == name:
            return l
    return None


# ---- helpers on input trees (transport format) -----------------------------------------------------

def tree_get(tree, path):
    """value at a key path in a decoded file tree; returns ('absent'|'null'|'value', node)"""
    cur = tree
    for i, k in enumerate(path):
        if not (isinstance(cur, dict) and "o" in cur):
            return ("absent", None)
        hit = None
        for kk, vv in cur["o"]:
            if kk.strip() == k:
                hit = (vv,)
        if hit is None:
            return ("absent", None)
        cur = hit[0]
        if cur is None:
            return ("null", None)
    return ("value", cur)


PLURAL_FORMS = ["zero", "one", "two", "few", "many", "other"]


def plural_split(key):
    """(base, ordinal, form) when the key has a plural suffix"""
    if "_" not in key:
        return None
    base, suffix = key.rsplit("_", 1)
    if suffix not in PLURAL_FORMS:
        return None
    ordinal = False
    if base.endswith("_ordinal"):
        base = base[: -len("_ordinal")]
        ordinal = True
    return (base, ordinal, suffix)


def merged_key_tree(tree):
    """key tree of a file after plural merging (spec-level re-statement of the merging rule):
    dict key -> 'value' | 'null' | subtree dict"""
    out = {}
    groups = {}
    for k, v in tree["o"]:
        k = k.strip()
        is_obj = isinstance(v, dict) and "o" in v
        is_arr = isinstance(v, dict) and "a" in v
        ps = plural_split(k)
        if ps and not is_obj and not is_arr and v is not None:
            groups.setdefault(ps[0], {})[ps[2]] = k
        else:
            out[k] = merged_key_tree(v) if is_obj else ("null" if v is None else "value")
    for base, forms in groups.items():
        if len(forms) >= 2 and "other" in forms:
            out[base] = "value"
        else:
            for f, k in forms.items():
                out[k] = "value"
    return out


def iter_bki(bki, prefix=()):
    for k, lv in bki:
        if lv["v"] == "value":
            yield prefix + (k,), lv
        else:
            yield from iter_bki(lv["keys"], prefix + (k,))


def locale_value_at(ns_out, locale_name, path):
    """final value of a key path for a locale in a dumped result (follows LocaleValue::Subkeys.locales)"""
    keys = ns_out["keys"]
    top_locales = ns_out["locales"]
    locs = top_locales
    for i, k in enumerate(path):
        loc = None
        for l in locs:
            if l["top"] == locale_name:
                loc = l
        if loc is None:
            return None
        if i == len(path) - 1:
            for kk, vv in loc["keys"]:
                if kk == k:
                    return vv
            return None
        nxt = None
        for kk, lv in keys:
            if kk == k and lv["v"] == "subkeys":
                nxt = lv
        if nxt is None:
            return None
        keys = nxt["keys"]
        locs = nxt["locales"]
    return None


def generic_pipeline_check(ctx, modules, projects, oracle, name, fmt="json", suppress=False, sample_every=97):
    """lean_check + harness build + impl/model comparison + property oracle on every project"""
    for m, pfx in modules:
        lean_check(ctx, m, pfx)
    binp = build_parser(ctx, fmt, suppress)
    if binp is None:
        finish_broken(ctx, "harness does not build")
        return None
    outs = run_projects(ctx, binp, projects, fmt, suppress)
    for i, (p, o) in enumerate(zip(projects, outs)):
        r = o["impl"]
        if "crash" in r or "panic" in r or o["ci"].get("panic"):
            report_violation(ctx, name + ":impl-panics", {"case": project_text(p), "impl": r})
            continue
        compare_model(ctx, "P/pipeline(" + name + ")", p, o)
        kind = "ok" if "ok" in o["ci"] else "err:" + str(o["ci"].get("err"))
        ctx.count("result:" + kind)
        oracle(ctx, p, o, i)
    return outs


def crosscheck_evals(ctx):
    """every denotation the python mirror computed is recomputed by `Spec/Eval.lean` in the Lean driver"""
    if not EVAL_LOG:
        return
    envs, idx, items = [], {}, []
    for ej, tree, text in EVAL_LOG:
        if ej not in idx:
            idx[ej] = len(envs)
            envs.append(json.loads(ej))
        items.append([idx[ej], tree, text])
    n = len(items)
    del EVAL_LOG[:]
    bad = 0
    for k in range(0, n, 4000):
        r = lean_driver([{"op": "eval.batch", "envs": envs, "items": items[k:k + 4000]}], timeout=3600)[0]
        for m in r["mismatches"]:
            bad += 1
            it = items[k + m["index"]]
            raise HarnessError("python mirror of Spec/Eval disagrees with the Lean specification: tree=%s env=%s python=%r lean=%r" %
                               (json.dumps(it[1], ensure_ascii=False)[:400], json.dumps(envs[it[0]], ensure_ascii=False)[:300], it[2], m["lean"]))
    ctx.extra["denotations_rechecked_by_lean_spec"] = ctx.extra.get("denotations_rechecked_by_lean_spec", 0) + n


_finish_broken_common = finish_broken


def finish_broken(ctx, searched_desc):
    crosscheck_evals(ctx)
    _finish_broken_common(ctx, searched_desc)
