"""C18 — formatters apply the declared options for the locale being rendered.
Theorems: lean/I18nVerif/Theorems/C18.lean.
(i)   option selection: structured formatter clauses (name, (option, value) list, whitespace paddings) printed by the Lean
      spec (`fmt.src`), wrapped as `{{ v, <clause> }}`: real parser (parser_h `parse_new`) vs Lean model (`parse.new`)
      vs documented semantics (`specFormatter`);
(ii)  formatting: real helpers of `leptos_i18n::__private` (display / formatter / view flavours), the `declare_locales!`
      + `td!`/`td_string!`/`td_display!` path and the `td_format*!` macros for a compiled-in table, vs ICU4X called
      directly with the documented options and the locale being rendered (harness fmt_h);
(iii) history independence: random request sequences in one process vs every request as the first request of a fresh
      process, and vs the Lean cache model's prediction of the key served (`fmt.cache`);
(iv)  16 threads racing on first use (support only);
(v)   custom ICU data provider: the same formatting requests, the compiled-in table (six macro flavours) and a small
      `load_locales!` project (formatter and plural keys) served by harness fmt_np_h, which builds leptos_i18n WITHOUT
      `icu_compiled_data` (own target dir harness/target-np) and installs, with `set_icu_data_provider`, a provider that
      forwards each of the nine `IcuDataProvider` methods to the ICU4X constructor of that meaning and records the call:
      outputs vs ICU4X called directly, and recorded constructor calls vs the (constructor, locale, options) the
      requests denote (each exactly once).  Violation signatures start with `custom-provider:`."""
import html
import itertools
import re
from .common import *
import re

RULE = ("(i) exhaustive product, both tiers: six formatter names x per option "
        "{absent, every accepted value, bogus value, bogus then accepted, accepted then another accepted} x both orders "
        "of two options x {no unknown option, unknown option first, unknown option last} x 6 whitespace paddings "
        "(none, spaces, tab/newline, U+00A0/U+3000/U+2003, only inside, only outside), plus clauses without parentheses, "
        "unknown / mis-cased / empty names and malformed clauses; (ii) 8 locales x 6 kinds x every option combination x "
        "value sets (integers of every width and sign, floats, decimals with trailing zeros, dates from year -44 to "
        "9999, times, lists of 0..6 items incl. HTML-special and non-ASCII items) + the 62-entry compiled-in table x 8 "
        "locales x 2 values x 6 macro flavours; (iii) random sequences of 24..40 requests from a pool, each sequence in "
        "one process; (iv) 16 threads x first use; (v) build without icu_compiled_data + recording custom provider: "
        "8 locales x 6 kinds x every renderable option combination (all but time_length full|long) x the value sets of (ii), "
        "every renderable entry of the compiled-in table x 8 locales x 2 values x 6 macro flavours, 12 formatter keys of a "
        "load_locales! project x 4 locales x 2 values x {td_string!, td_display!}, cardinal and ordinal plural keys x 4 locales "
        "x 35 boundary counts + random counts, and the set of constructor calls the provider received; non-trivial = clause with at least one argument / output differing "
        "from the raw value; distinct = distinct cases")

NAMES = ["number", "currency", "date", "time", "datetime", "list"]
LENS = ["full", "long", "medium", "short"]
OPTIONS = {   # documented table mirrored only to *generate* cases; the oracle is the Lean spec
    "number": [("grouping_strategy", ["auto", "never", "always", "min2"])],
    "currency": [("width", ["short", "narrow"]), ("currency_code", ["USD", "EUR", "JPY", "eur", ""])],
    "date": [("date_length", LENS)],
    "time": [("time_length", LENS)],
    "datetime": [("date_length", LENS), ("time_length", LENS)],
    "list": [("list_type", ["and", "or", "unit"]), ("list_style", ["wide", "short", "narrow"])],
}
BOGUS = {"grouping_strategy": ["bogus", "Never"], "width": ["wide"], "currency_code": ["EURO", "€"],
         "date_length": ["tiny"], "time_length": ["Full"], "list_type": ["and or"], "list_style": ["long"]}
UNKNOWN_OPTS = [("foo", "bar"), ("list_length", "short"), ("Grouping_Strategy", "never"), ("", "")]
LOCALES = ["en", "fr", "de", "ja", "ar", "ru", "es", "pt-BR"]

# whitespace paddings: (w0, w1, inner, w2, (a.w1, a.w2, a.w3, a.w4))
PADS = [
    ("", "", "", "", ("", "", "", "")),
    (" ", " ", " ", " ", (" ", " ", " ", " ")),
    ("\t", "\n", "\r\n", "\t ", ("\n", "\t", "  ", "\n\n")),
    ("\u00a0", "\u3000", "\u2003", "\u2028", ("\u00a0", "\u2003", "\u3000", "\u0085")),
    ("", "", " ", "", (" ", "", " ", "")),
    ("  ", "", "", "  ", ("", " ", "", " ")),
]


def option_states(opt, values):
    """argument lists for one option: absent / each accepted value / bogus / bogus then accepted / accepted then another"""
    st = [[]]
    st += [[(opt, v)] for v in values]
    st += [[(opt, b)] for b in BOGUS[opt]]
    st += [[(opt, BOGUS[opt][0]), (opt, v)] for v in values]
    st += [[(opt, a), (opt, b)] for a in values for b in values if a != b]
    return st


def clause_src(name, pairs, pad, parens=True):
    w0, w1, inner, w2, (a1, a2, a3, a4) = pad
    args = None
    if parens:
        args = [{"w1": a1, "key": k, "w2": a2, "w3": a3, "val": v, "w4": a4} for k, v in pairs]
    return {"w0": w0, "name": name, "w1": w1, "inner": inner, "w2": w2, "args": args}


def selection_cases(ctx):
    cases = []
    for name in NAMES:
        opts = OPTIONS[name]
        per = [option_states(o, vs) for o, vs in opts]
        combos = []
        if len(per) == 1:
            combos = [s for s in per[0]]
        else:
            for a in per[0]:
                for b in per[1]:
                    combos.append(a + b)
                    if a and b:
                        combos.append(b + a)
                        if len(a) == 2:
                            combos.append([a[0]] + b + [a[1]])   # interleaved repetition
        for ci, pairs in enumerate(combos):
            for ui in range(3):
                unk = UNKNOWN_OPTS[(ci + ui) % len(UNKNOWN_OPTS)]
                full = pairs if ui == 0 else ([unk] + pairs if ui == 1 else pairs + [unk])
                for pi, pad in enumerate(PADS):
                    cases.append({"src": clause_src(name, full, pad), "wf": True})
        # without parentheses, with every padding
        for pad in PADS:
            cases.append({"src": clause_src(name, [], pad, parens=False), "wf": True})
    # names that are not formatters (with and without arguments)
    for bad in ["", "num", "Number", "NUMBER", "numbers", "number2", "date time", "date_time", "dateTime", "lists",
                "curr", "none", "number\u200b", "nümber"]:
        for pad in PADS[:3]:
            cases.append({"src": clause_src(bad, [], pad, parens=False), "wf": True})
            cases.append({"src": clause_src(bad, [("grouping_strategy", "never")], pad), "wf": True})
    # values / names with characters that are allowed by the grammar of the clause
    for name, pairs in [("currency", [("currency_code", "a:b")]), ("currency", [("currency_code", "(x)")]),
                        ("number", [("grouping_strategy", "ne ver")]), ("number", [("grouping strategy", "never")]),
                        ("list", [("list_type", "or"), ("list_type", "and"), ("list_style", "x"), ("list_style", "narrow")]),
                        ("currency", [("currency_code", "A B")]), ("currency", [("currency_code", "é")])]:
        for pad in PADS:
            cases.append({"src": clause_src(name, pairs, pad), "wf": True})
    # malformed clauses (no structured source: implementation vs model only)
    for raw in ["number(", "number)", "number(grouping_strategy: never", "number grouping_strategy: never)",
                "number(grouping_strategy: never) trailing", "number(grouping_strategy: never))", "number((grouping_strategy: never)",
                "number(a)(grouping_strategy: never)", "number(grouping_strategy never)", "number(grouping_strategy: never; )",
                "number(;;grouping_strategy:never;;)", "number(:)", "number(grouping_strategy:)", "number(:never)",
                "number(grouping_strategy:never:always)", "number(grouping_strategy::never)", "(grouping_strategy: never)",
                "number()x", "date(date_length: full, time_length: full)", "datetime(date_length: full; time_length)",
                "list(list_type: or; list_style: narrow)) ", "currency(currency_code: EUR;width:narrow", " ( ) ", "()"]:
        cases.append({"raw": raw, "wf": False})
    return cases


def find_var(pv):
    if isinstance(pv, dict):
        if pv.get("t") == "var":
            return pv
        for v in pv.values():
            r = find_var(v)
            if r is not None:
                return r
    elif isinstance(pv, list):
        for v in pv:
            r = find_var(v)
            if r is not None:
                return r
    return None


def strip_msg(r):
    return {k: v for k, v in r.items() if k != "msg"} if isinstance(r, dict) else r


def check_selection(ctx, binp):
    cases = selection_cases(ctx)
    wf_cases = [c for c in cases if c["wf"]]
    srcs = lean_driver([{"op": "fmt.src", "src": c["src"]} for c in wf_cases])
    for c, r in zip(wf_cases, srcs):
        c["clause"] = r["print"]
        c["spec"] = r["spec"]
        c["spec_model"] = r["model"]
        if not r["wf"]:
            raise HarnessError("generator produced a source the spec calls ill-formed: " + json.dumps(c["src"]))
    for c in cases:
        if not c["wf"]:
            c["clause"] = c["raw"]
        c["s"] = "{{ v, " + c["clause"] + " }}"
    impl = run_lines_resilient(binp, [{"op": "parse_new", "s": c["s"]} for c in cases])
    model = lean_driver([{"op": "parse.new", "s": c["s"]} for c in cases])
    mism = 0
    for c, r, m in zip(cases, impl, model):
        nontriv = c["wf"] and bool(c["src"]["args"])
        ctx.seen({"sel": c["s"]}, nontrivial=nontriv)
        ctx.count("selection:" + ("wf" if c["wf"] else "malformed"))
        if "panic" in r or "crash" in r:
            report_violation(ctx, "parse-formatter-panics", {"input": c["s"], "impl": r, "expected_by_spec": "a formatter or UnknownFormatter"})
            continue
        if strip_msg(r) != m:
            mism += 1
            if not any(b["name"] == "P/parse_formatter" for b in ctx.broken):
                ctx.broken.append({"kind": "correspondence", "name": "P/parse_formatter",
                                   "detail": {"input": c["s"], "impl": strip_msg(r), "model": m}})
        if not c["wf"]:
            continue
        # model vs spec on the structured source (theorem C18_whitespace_spec)
        want_model = {"ok": c["spec"]} if c["spec"] is not None else {"err": "UnknownFormatter"}
        if c["spec_model"] != want_model:
            raise HarnessError("model violates its proved specification on " + json.dumps(c["src"]))
        # impl vs spec
        if c["spec"] is None:
            got = strip_msg(r)
            ok = got == {"err": "UnknownFormatter"}
            ctx.count("selection:unknown-name")
        else:
            var = find_var(r.get("ok"))
            got = var["fmt"] if var else strip_msg(r)
            ok = var is not None and var["key"] == "var_v" and var["fmt"] == c["spec"]
            ctx.count("selection:" + c["spec"]["f"])
        if not ok:
            report_violation(ctx, "formatter-options", {
                "input": c["s"], "source": c["src"], "expected_by_spec": c["spec"] if c["spec"] is not None else "UnknownFormatter",
                "implementation": got, "harness": "parser_h parse_new"})
        if len(ctx.samples) < 3 and nontriv and c["src"]["w0"]:
            ctx.sample({"input": c["s"], "impl": got, "spec": c["spec"]})
    ctx.extra["selection_cases"] = len(cases)
    ctx.extra["exhaustive"] = False
    ctx.extra["exhaustive_part"] = ("option selection: every combination of per-option states {absent, each accepted value, bogus, "
                                    "bogus-then-accepted, accepted-then-other} x argument orders x unknown-option position x 6 paddings, "
                                    "for each of the six formatters")
    ctx.extra["selection_impl_vs_model_mismatches"] = mism


def find_var_named(pv, name):
    if isinstance(pv, dict):
        if pv.get("t") == "var" and pv.get("key") == name:
            return pv
        for v in pv.values():
            r = find_var_named(v, name)
            if r is not None:
                return r
    elif isinstance(pv, list):
        for v in pv:
            r = find_var_named(v, name)
            if r is not None:
                return r
    return None


def check_references(ctx, binp):
    """the declared options also apply where the formatted variable is reached through `$t(..)`: directly, with arguments for
    another variable, through a chain, and in a locale that takes the referenced key from the locale it inherits from"""
    from . import pipe, proj
    rng = ctx.rng
    cases = [c for c in selection_cases(ctx) if c["wf"]]
    srcs = lean_driver([{"op": "fmt.src", "src": c["src"]} for c in cases])
    clauses = {}
    for c, r in zip(cases, srcs):
        if r["spec"] is not None and r["print"] not in clauses and "{" not in r["print"] and "}" not in r["print"] and '"' not in r["print"]:
            clauses[r["print"]] = r["spec"]
    items = sorted(clauses.items())
    items = rng.sample(items, min(len(items), ctx.budget(160, 1200)))
    projects = []
    for k in range(0, len(items), 16):
        chunk = items[k:k + 16]
        files = {}
        for l in ("en", "fr", "fr-CA"):
            pairs = []
            for i, (clause, spec) in enumerate(chunk):
                if l != "fr-CA":
                    pairs += [(f"a{i}", f"[{l}] {{{{ v, {clause} }}}}"), (f"l{i}", f"{{{{ label }}}}: {{{{ v, {clause} }}}}")]
                if l != "fr-CA" or rng.chance(1, 2):
                    pairs += [(f"t{i}", f"Total: $t(a{i})"), (f"w{i}", f"$t(l{i}, {{\"label\": \"VAT\"}})"), (f"c{i}", f"<b>$t(t{i})</b>!")]
            files[(None, l)] = proj.O(pairs)
        projects.append({"default": "en", "locales": ["en", "fr", "fr-CA"], "all_locales": ["en", "fr", "fr-CA"], "namespaces": None,
                         "inherits": {"fr-CA": "fr"}, "files": files, "extra_cfg": False, "meta": {}, "clauses": chunk})
    outs = pipe.run_projects(ctx, binp, projects)
    for p, o in zip(projects, outs):
        ctx.seen({"reference_project": [c for c, _ in p["clauses"]]}, nontrivial=True)
        if "crash" in o["impl"] or "panic" in o["impl"] or "ok" not in o["ci"]:
            report_violation(ctx, "formatter-through-reference:rejected", {"case": pipe.project_text(p), "impl": o["impl"].get("result", o["impl"])})
            continue
        pipe.compare_model(ctx, "P/pipeline(C18-references)", p, o)
        ns_out = o["impl"]["result"]["ok"]["nss"][0]
        for i, (clause, spec) in enumerate(p["clauses"]):
            for l in p["locales"]:
                for key in (f"a{i}", f"t{i}", f"w{i}", f"c{i}"):
                    v = pipe.locale_value_at(ns_out, l, (key,))
                    if v is None or v.get("t") == "default":
                        continue
                    var = find_var_named(v, "var_v")
                    ctx.count("reference:" + ("direct" if key[0] == "a" else "through-$t"))
                    if var is None or var["fmt"] != spec:
                        report_violation(ctx, "formatter-through-reference", {
                            "case": pipe.project_text(p), "locale": l, "key": key, "clause": clause, "expected_by_spec": spec,
                            "implementation": var["fmt"] if var else "variable `v` not found in the key's value",
                            "why": "a key written `$t(target)` renders what the target renders: the target's `{{ v, %s }}` keeps its formatter and options" % clause,
                            "harness": "parser_h pipeline"})
                        return


def check_format_views(ctx):
    """`t_format!` views follow the context: made under one locale, rendered after `set_locale`, they are formatted for the new one"""
    binc = cargo_build(ctx, "ctx_h")
    if binc is None:
        return
    locs = ["en", "en-US", "fr", "fr-CA", "de"]
    reqs = [{"op": "format_views", "from": a, "to": b} for a in locs for b in locs if a != b]
    outs = run_lines_resilient(binc, reqs)
    for q, r in zip(reqs, outs):
        ctx.seen(q, nontrivial=True)
        ctx.count("format_view_switch")
        if "after" not in r:
            report_violation(ctx, "format-view:panics", {"case": q, "impl": r})
            continue
        strip = lambda t: re.sub(r"<!--.*?-->|<!>", "", t)
        if strip(r["before"]) != r["expected_before"]:
            report_violation(ctx, "format-view:wrong-before-switch", {"case": q, "expected_by_spec": r["expected_before"], "implementation": r["before"]})
            continue
        for k, exp in r["expected_after"].items():
            got = strip(r["after"][k])
            if got != exp:
                report_violation(ctx, "format-view:not-following-locale", {
                    "case": q, "what": k, "expected_by_spec": exp, "implementation": got,
                    "why": "the value is formatted for the locale the context shows when the view is rendered / the string is made (reference: td_format_string! with that locale)",
                    "harness": "ctx_h format_views"})
                break


# ----------------------------------------------------------------------------- documentation

def check_docs(ctx):
    """every formatter clause written in the book and in the rustdoc of the macros names a documented formatter, and
    each of its arguments is an option of that formatter with an accepted value (judged by the Lean table); and the
    generator's own table equals the Lean table"""
    table = lean_driver([{"op": "fmt.table"}])[0]
    mine = [{"name": n, "options": [{"name": o, "allowed": vs} for o, vs in OPTIONS[n]]} for n in NAMES]
    lean = [{"name": e["name"], "options": [{"name": o["name"], "allowed": o["allowed"]} for o in e["options"]]} for e in table]
    for a, b in zip(sorted(mine, key=lambda e: e["name"]), sorted(lean, key=lambda e: e["name"])):
        for oa, ob in zip(a["options"], b["options"]):
            if a["name"] != b["name"] or oa["name"] != ob["name"] or (ob["allowed"] != "code3" and oa["allowed"] != ob["allowed"]):
                raise HarnessError("generator table differs from the Lean documented table: " + json.dumps([a, b]))
    clauses = []
    for path in ["docs/book/src/declare/08_formatters.md", "docs/book/src/usage/09_t_format.md", "leptos_i18n/src/macros.rs",
                 "README.md"]:
        p = os.path.join(REPO, path)
        if not os.path.exists(p):
            continue
        text = open(p, encoding="utf-8").read()
        for m in re.finditer(r"\{\{\s*\w+\s*,\s*([a-z_]+)\s*\(([^)]*)\)\s*\}\}", text):
            clauses.append((path, m.group(0), m.group(1), m.group(2)))
        for m in re.finditer(r"formatter:\s*([a-z_]+)\s*\(([^)]*)\)", text):
            clauses.append((path, m.group(0), m.group(1), m.group(2)))
    reqs, meta = [], []
    for path, txt, name, args in clauses:
        if "..." in args or "arg_name" in args or name == "formatter_name":
            continue
        for seg in args.split(";"):
            if ":" in seg:
                k, v = seg.split(":", 1)
                reqs.append({"op": "fmt.doc", "name": name, "key": k.strip(), "val": v.strip()})
                meta.append((path, txt, name, [k.strip(), v.strip()]))
    out = lean_driver(reqs)
    for (path, txt, name, pair), r in zip(meta, out):
        ctx.count("docs:arguments")
        ctx.seen({"doc": [path, txt, pair]}, nontrivial=True)
        if not (r["formatter"] and r["option"] and r["value"]):
            report_violation(ctx, "doc-option-unknown", {
                "documentation": path, "clause": txt, "argument": pair, "judgement": r,
                "expected_by_spec": "every argument shown in the documentation is an option of that formatter with an accepted value",
                "implementation": "the parser ignores this argument silently: the documented example does not do what it says"})
    ctx.extra["doc_arguments_checked"] = len(meta)


# ----------------------------------------------------------------------------- formatting

NUMS_Q = [("u64", "0"), ("u64", "7"), ("u64", "999"), ("u64", "1000"), ("u64", "9999"), ("u64", "10000"),
          ("u64", "1234567"), ("u64", "18446744073709551615"), ("i64", "-1"), ("i64", "-1000"), ("i64", "-1234567"),
          ("i64", "-9223372036854775808"), ("f64", "0.5"), ("f64", "-1234.5"), ("f64", "1234.5678"),
          ("f64", "0.30000000000000004"), ("f64", "1e21"), ("f32", "2000.5"), ("f32", "0.1"),
          ("dec", "2000.50"), ("dec", "-0.001"), ("dec", "1000000.000"), ("dec", "12345678901234567890.123")]
DATES = [[1970, 1, 2], [2024, 2, 29], [1999, 12, 31], [2000, 1, 1], [1, 1, 1], [-44, 3, 15], [9999, 12, 31]]
TIMES = [[0, 0, 0], [14, 34, 28], [12, 0, 0], [23, 59, 59], [0, 30, 5]]
LISTS = [[], ["A"], ["A", "B"], ["A", "B", "C"], ["A", "B", "C", "D"], ["<C&>", "é", "日本"], ["x", "y", "x", "y", "x", "y"]]
CODES = ["USD", "EUR", "JPY", "eur", "XYZ", ""]


def option_combos(kind):
    if kind == "number":
        return [{"g": g} for g in OPTIONS["number"][0][1]]
    if kind == "currency":
        return [{"w": w, "c": c} for w in ["short", "narrow"] for c in CODES]
    if kind == "date":
        return [{"d": d} for d in LENS]
    if kind == "time":
        return [{"t": t} for t in LENS]
    if kind == "datetime":
        return [{"d": d, "t": t} for d in LENS for t in LENS]
    return [{"ty": ty, "st": st} for ty in ["and", "or", "unit"] for st in ["wide", "short", "narrow"]]


def values_for(ctx, kind, rng):
    if kind in ("number", "currency"):
        vs = [{"t": t, "v": v} for t, v in NUMS_Q]
        if kind == "currency":
            vs = vs[::3]
        for _ in range(ctx.budget(2, 30)):
            t = rng.pick(["u64", "i64", "f64", "dec"])
            if t == "u64":
                v = str(rng.below(10 ** rng.range(1, 19)))
            elif t == "i64":
                v = str(-rng.below(10 ** rng.range(1, 18)))
            elif t == "f64":
                v = repr((rng.below(10 ** 9) - 5 * 10 ** 8) / 10 ** rng.range(0, 6))
            else:
                v = ("-" if rng.chance(1, 3) else "") + str(rng.below(10 ** rng.range(1, 12))) + "." + "".join(
                    str(rng.below(10)) for _ in range(rng.range(1, 5)))
            vs.append({"t": t, "v": v})
        return vs
    if kind == "date":
        return DATES + [[rng.range(1, 3000), rng.range(1, 12), rng.range(1, 28)] for _ in range(ctx.budget(1, 20))]
    if kind == "time":
        return TIMES + [[rng.range(0, 23), rng.range(0, 59), rng.range(0, 59)] for _ in range(ctx.budget(0, 10))]
    if kind == "datetime":
        base = [DATES[0] + TIMES[1], DATES[1] + TIMES[0], DATES[2] + TIMES[3], DATES[5] + TIMES[4]]
        return base + [[rng.range(1, 3000), rng.range(1, 12), rng.range(1, 28), rng.range(0, 23), rng.range(0, 59), rng.range(0, 59)]
                       for _ in range(ctx.budget(0, 8))]
    return LISTS


def norm_view(s, want=None):
    """text of a server-rendered text node: markers removed, entities decoded; leptos renders an empty text node as
    one space (so that a DOM node exists for hydration)"""
    t = html.unescape(re.sub(r"<!--.*?-->|<!>", "", s))
    return "" if want == "" and t == " " else t


def fmt_key(req):
    """cache key of a `format` request as the Rust code keys it (the currency code is not part of the key)"""
    f = req["f"]
    idx = lambda xs, v: xs.index(v)
    if f == "number":
        o = [idx(OPTIONS["number"][0][1], req["g"])]
    elif f == "currency":
        o = [idx(["short", "narrow"], req["w"])]
    elif f == "date":
        o = [idx(LENS, req["d"])]
    elif f == "time":
        o = [idx(LENS, req["t"])]
    elif f == "datetime":
        o = [idx(LENS, req["d"]), idx(LENS, req["t"])]
    else:
        o = [idx(["and", "or", "unit"], req["ty"]), idx(["wide", "short", "narrow"], req["st"])]
    return {"kind": f, "locale": LOCALES.index(req["locale"]), "opts": o}


REFUSED_SIG = "documented-option-unrenderable:time_length"


def judge_format(ctx, req, r, where, prefix=""):
    """impl vs oracle for one `format` answer: True (equal), "refused" (ICU4X refuses the options and the implementation
    panics: known finding), False (violation reported).  `prefix` is put in front of every violation signature
    (`custom-provider:` for the build without compiled data)"""
    if not isinstance(r, dict) or ("oracle" not in r and "oracle_err" not in r):
        report_violation(ctx, prefix + "formatting-fails", {"request": req, "implementation": r, "expected_by_spec": "ICU4X output", "harness": where})
        return False
    if "oracle_err" in r:
        if "impl_panic" in r:
            # no ICU4X output exists for these options; the implementation panics on first use (and on every use)
            report_violation(ctx, prefix + (REFUSED_SIG if req["f"] in ("time", "datetime") and req.get("t") in ("full", "long") else
                                            "documented-option-unrenderable:" + req["f"]), {
                "request": req, "icu4x": r["oracle_err"], "implementation": {"panic": r["impl_panic"]},
                "expected_by_spec": "a documented option value can be rendered (ICU4X refuses to build this formatter)", "harness": where})
            return "refused"
        report_violation(ctx, prefix + "output-where-icu4x-refuses", {"request": req, "icu4x": r["oracle_err"], "implementation": impl_fields(r),
                                                             "expected_by_spec": "no output", "harness": where})
        return False
    if "impl_panic" in r:
        report_violation(ctx, prefix + "formatting-panics:" + req["f"], {
            "request": req, "expected_by_spec": r["oracle"], "implementation": {"panic": r["impl_panic"]}, "harness": where})
        return False
    got = {"display": r["display"], "formatter": r["formatter"], "view": norm_view(r["view"], r["oracle"])}
    bad = {k: v for k, v in got.items() if v != r["oracle"]}
    if bad:
        report_violation(ctx, prefix + "output-differs-from-icu4x:" + req["f"], {
            "request": req, "expected_by_spec": r["oracle"], "implementation": bad,
            "harness": where + " (leptos_i18n::__private::format_*_to_{display,formatter,view} vs ICU4X called directly)"})
        return False
    return True


TABLE_VALS = {"number": [{"t": "dec", "v": "2000.50"}, {"t": "i64", "v": "-1234567"}],
              "currency": [{"t": "dec", "v": "2000.50"}, {"t": "u64", "v": "1234567"}],
              "date": [DATES[0], DATES[1]], "time": [TIMES[1], TIMES[0]],
              "datetime": [DATES[0] + TIMES[1], DATES[1] + TIMES[3]], "list": [LISTS[3], LISTS[5]]}


def clause_spec_req(clause):
    """Lean request giving the documented options (`specFormatter`) of a clause `name` / `name(opt: value; ..)`"""
    m = re.match(r"^\s*([a-z_]+)\s*(?:\((.*)\))?\s*$", clause, re.S)
    if not m:
        raise HarnessError("cannot read formatter clause " + clause)
    args = None
    if m.group(2) is not None:
        args = [[a.strip(), b.strip()] for a, b in (seg.split(":", 1) for seg in m.group(2).split(";") if ":" in seg)]
    return {"op": "fmt.spec", "name": m.group(1), "args": args}


def check_formatting(ctx, binf, binp):
    rng = ctx.rng.fork()
    reqs = []
    for kind in NAMES:
        vals = values_for(ctx, kind, rng)
        for loc in LOCALES:
            for o in option_combos(kind):
                for v in vals:
                    reqs.append(dict({"op": "format", "locale": loc, "f": kind, "value": v}, **o))
    outs = run_lines_resilient(binf, reqs)
    for q, r in zip(reqs, outs):
        raw = q["value"]["v"] if isinstance(q["value"], dict) else None
        ok = judge_format(ctx, q, r, "fmt_h format")
        ctx.seen({"fmt": q}, nontrivial=ok is True and r["oracle"] != raw)
        ctx.count("format:" + q["f"] + (":refused-by-icu4x" if ok == "refused" else ""))
        if ok is True and q["locale"] == "ar" and q["f"] == "datetime" and len(ctx.samples) < 5:
            ctx.sample({"request": q, "output": r["display"]})
    ctx.extra["format_requests"] = len(reqs)

    # ---- the compiled-in table: file syntax and t_format literal syntax, both against the documented options
    table, _ = run_lines(binf, [{"op": "table"}])
    table = table[0]
    impl = run_lines_resilient(binp, [{"op": "parse_new", "s": e["file"]} for e in table])
    tf_spec = lean_driver([clause_spec_req(e["tf"]) for e in table])
    vals = TABLE_VALS
    treqs, oreqs, meta = [], [], []
    for e, r, ts in zip(table, impl, tf_spec):
        var = find_var(r.get("ok")) if isinstance(r, dict) else None
        if var is None or ts["spec"] is None:
            raise HarnessError("table entry does not parse: " + json.dumps(e))
        if var["fmt"] != ts["spec"]:
            # the two syntaxes of one table row must denote the same options by the documented semantics
            report_violation(ctx, "t_format-vs-file-options", {
                "file_syntax": e["file"], "macro_syntax": e["tf"], "expected_by_spec": ts["spec"], "implementation": var["fmt"]})
            continue
        opts = {k: v for k, v in ts["spec"].items()}
        for loc in LOCALES:
            for v in vals[e["kind"]]:
                treqs.append({"op": "table_format", "locale": loc, "kind": e["kind"], "key": e["key"], "value": v})
                oreqs.append(dict({"op": "format", "locale": loc, "value": v}, **opts))
                meta.append(e)
    touts = run_lines_resilient(binf, treqs)
    oouts = run_lines_resilient(binf, oreqs)
    for e, tq, tr, oq, orr in zip(meta, treqs, touts, oreqs, oouts):
        ctx.seen({"table": tq}, nontrivial=True)
        ctx.count("table:" + e["kind"])
        if isinstance(orr, dict) and "oracle_err" in orr:
            ctx.count("table:refused-by-icu4x")
            if isinstance(tr, dict) and "panic" in tr:
                report_violation(ctx, REFUSED_SIG, {"translation": e["file"], "request": tq, "icu4x": orr["oracle_err"],
                                                    "implementation": tr, "expected_by_spec": "a documented option value can be rendered"})
            else:
                report_violation(ctx, "output-where-icu4x-refuses", {"request": tq, "icu4x": orr["oracle_err"], "implementation": tr,
                                                                     "expected_by_spec": "no output"})
            continue
        if not isinstance(orr, dict) or "oracle" not in orr:
            raise HarnessError("oracle failed on " + json.dumps(oq) + ": " + json.dumps(orr))
        want = orr["oracle"]
        if not isinstance(tr, dict) or "string" not in tr:
            report_violation(ctx, "formatting-fails", {"request": tq, "implementation": tr, "expected_by_spec": want})
            continue
        got = {k: (norm_view(v, want) if k.endswith("view") else v) for k, v in tr.items()}
        bad_file = {k: v for k, v in got.items() if not k.startswith("tf_") and v != want}
        bad_tf = {k: v for k, v in got.items() if k.startswith("tf_") and v != want}
        if bad_file:
            report_violation(ctx, "file-path-output:" + e["kind"], {
                "translation": e["file"], "request": tq, "documented_options": oq, "expected_by_spec": want, "implementation": bad_file,
                "harness": "fmt_h table_format: declare_locales! + td_string!/td_display!/td! vs ICU4X with the documented options"})
        if bad_tf:
            report_violation(ctx, "t_format-output:" + e["kind"], {
                "macro": "td_format*!(.., formatter: " + e["tf"] + ")", "request": tq, "documented_options": oq,
                "expected_by_spec": want, "implementation": bad_tf, "harness": "fmt_h table_format"})
    ctx.extra["table_entries"] = len(table)
    ctx.extra["table_requests"] = len(treqs)
    return table, {e["key"]: ts["spec"] for e, ts in zip(table, tf_spec)}


# ----------------------------------------------------------------------------- history / race

def served(r):
    """did the implementation produce text?"""
    return isinstance(r, dict) and ("display" in r or "string" in r)


def impl_fields(r):
    if not isinstance(r, dict):
        return r
    return {k: v for k, v in r.items() if k not in ("oracle", "oracle_err")}


CORPUS_HISTORY = [
    {"op": "format", "locale": "en", "f": "time", "t": "full", "value": [14, 34, 28]},
    {"op": "format", "locale": "fr", "f": "number", "g": "auto", "value": {"t": "u64", "v": "1234567"}},
    {"op": "format", "locale": "en", "f": "time", "t": "medium", "value": [14, 34, 28]},
]


def request_pool(ctx, rng, table, table_opts, n):
    pool = [{"req": q, "key": fmt_key(q), "steps": 3} for q in CORPUS_HISTORY]
    seen = set(json.dumps(q, sort_keys=True) for q in CORPUS_HISTORY)
    while len(pool) < n:
        loc = rng.pick(LOCALES)
        if rng.chance(1, 4):
            e = rng.pick(table)
            v = {"number": {"t": "dec", "v": "2000.50"}, "currency": {"t": "i64", "v": "-98765"}, "date": DATES[1], "time": TIMES[1],
                 "datetime": DATES[0] + TIMES[1], "list": LISTS[3]}[e["kind"]]
            q = {"op": "table_format", "locale": loc, "kind": e["kind"], "key": e["key"], "value": v}
            key = fmt_key(dict({"locale": loc}, **table_opts[e["key"]]))
            steps = 6
        else:
            kind = rng.pick(NAMES)
            o = rng.pick(option_combos(kind))
            v = rng.pick(values_for(ctx, kind, rng)[:8] or [[]])
            q = dict({"op": "format", "locale": loc, "f": kind, "value": v}, **o)
            key = fmt_key(q)
            steps = 3
        s = json.dumps(q, sort_keys=True)
        if s in seen:
            continue
        seen.add(s)
        pool.append({"req": q, "key": key, "steps": steps})
    return pool


def check_history(ctx, binf, table, table_opts):
    rng = ctx.rng.fork()
    pool = request_pool(ctx, rng, table, table_opts, ctx.budget(80, 400))
    # every request as the first request of a fresh process
    for p in pool:
        out, crash = run_lines(binf, [p["req"]])
        if crash or not out:
            raise HarnessError("fmt_h crashed on a single request: " + json.dumps(p["req"]) + " " + json.dumps(crash))
        p["fresh"] = out[0]
        if p["req"]["op"] == "format":
            judge_format(ctx, p["req"], out[0], "fmt_h format (fresh process)")
        p["served"] = served(out[0])
    refused = []
    for p in pool:
        if not p["served"] and p["key"] not in refused:
            refused.append(p["key"])
    for p in pool:
        if p["served"] and p["key"] in refused:
            raise HarnessError("a cache key is both served and refused in fresh processes: " + json.dumps(p["req"]))
    nseq = ctx.budget(200, 2000)
    lreqs, seqs = [], []
    # corpus (corpus/C18/lock-poisoning-history.json): a formatter ICU4X refuses, then others
    byreq = {json.dumps(p["req"], sort_keys=True): p for p in pool}
    corpus = [byreq[json.dumps(q, sort_keys=True)] for q in CORPUS_HISTORY]
    for seq in ([corpus[0], corpus[1], corpus[0], corpus[2], corpus[1]], corpus[::-1]):
        seqs.append(seq)
        lreqs.append({"op": "fmt.cache", "reqs": [k for p in seq for k in [p["key"]] * p["steps"]], "refused": refused})
    for _ in range(nseq):
        k = rng.range(24, 40)
        # a few hot requests so that keys repeat, different requests sharing a key, and cold ones
        hot = [rng.pick(pool) for _ in range(4)]
        seq = [rng.pick(hot) if rng.chance(1, 3) else rng.pick(pool) for _ in range(k)]
        seqs.append(seq)
        steps = []
        for p in seq:
            steps += [p["key"]] * p["steps"]
        lreqs.append({"op": "fmt.cache", "reqs": steps, "refused": refused})
    model = lean_driver(lreqs)
    dependent = 0
    nseq = len(seqs)
    for seq, m in zip(seqs, model):
        out, crash = run_lines(binf, [{"op": "history", "reqs": [p["req"] for p in seq]}])
        if crash or not out or "outs" not in out[0]:
            raise HarnessError("fmt_h history crashed: " + json.dumps(crash))
        outs = out[0]["outs"]
        # the model's prediction: step j is served the formatter made for the key first requested at step served[j];
        # that key must be the key of the request itself (C18_cache_memo), and hits = "key seen before"
        steps = []
        for p in seq:
            steps += [p["key"]] * p["steps"]
        seen_keys = []
        for j, (kj, sj, hj) in enumerate(zip(steps, m["served"], m["hits"])):
            if (sj is None) != (kj in refused) or (sj is not None and steps[sj] != kj) or hj != (kj in seen_keys):
                raise HarnessError("cache model contradicts its theorem: " + json.dumps({"steps": steps, "model": m}))
            if kj not in seen_keys and kj not in refused:
                seen_keys.append(kj)
        if m["size"] != len(seen_keys):
            raise HarnessError("cache model size: " + json.dumps(m))
        pos = 0
        for i, (p, o) in enumerate(zip(seq, outs)):
            ctx.seen({"hist": [json.dumps(x["req"], sort_keys=True) for x in seq[:i + 1]]}, nontrivial=i > 0)
            # impl vs model: served / panicked, request by request
            model_served = all(x is not None for x in m["served"][pos:pos + p["steps"]])
            pos += p["steps"]
            if served(o) != model_served and not any(b["name"] == "R/formatter-cache" for b in ctx.broken):
                ctx.broken.append({"kind": "correspondence", "name": "R/formatter-cache", "detail": {
                    "sequence": [x["req"] for x in seq[:i + 1]], "impl": impl_fields(o), "model_served": model_served,
                    "pre_repair_model_served": m["poisoning"][pos - 1]}})
            if impl_fields(o) != impl_fields(p["fresh"]):
                dependent += 1
                report_violation(ctx, "output-depends-on-history", {
                    "sequence": [x["req"] for x in seq[:i + 1]], "request": p["req"],
                    "expected_by_spec": impl_fields(p["fresh"]), "implementation": impl_fields(o),
                    "harness": "fmt_h history (one process) vs the same request first in a fresh process"})
        ctx.count("history:sequences")
        ctx.count("history:distinct_keys", len(seen_keys))
    ctx.extra["history_sequences"] = nseq
    ctx.extra["history_pool"] = len(pool)
    ctx.extra["history_dependent_outputs"] = dependent
    return pool


def check_race(ctx, binf, pool):
    rng = ctx.rng.fork()
    nrace = ctx.budget(6, 40)
    bad = 0
    for _ in range(nrace):
        sel = rng.sample(pool, min(len(pool), 40))
        out, crash = run_lines(binf, [{"op": "race", "threads": 16, "reqs": [p["req"] for p in sel]}])
        if crash or not out or "threads" not in out[0]:
            raise HarnessError("fmt_h race crashed: " + json.dumps(crash))
        for t, outs in enumerate(out[0]["threads"]):
            if not isinstance(outs, list):
                bad += 1
                report_violation(ctx, "race-thread-panicked", {"requests": [p["req"] for p in sel], "implementation": outs,
                                                                "expected_by_spec": "same outputs as single-threaded"})
                continue
            for p, o in zip(sel, outs):
                ctx.seen({"race": 1}, nontrivial=False)
                if impl_fields(o) != impl_fields(p["fresh"]):
                    bad += 1
                    report_violation(ctx, "output-depends-on-threads", {
                        "requests": [x["req"] for x in sel], "thread": t, "request": p["req"],
                        "expected_by_spec": impl_fields(p["fresh"]), "implementation": impl_fields(o),
                        "harness": "fmt_h race: 16 threads after a barrier, first use of the formatter cache"})
        ctx.count("race:runs")
    ctx.extra["race_runs"] = nrace
    ctx.extra["race_bad"] = bad


# ----------------------------------------------------------------------------- custom ICU data provider

NP = "custom-provider:"
NP_WHERE = "fmt_np_h (leptos_i18n built WITHOUT icu_compiled_data; provider installed with set_icu_data_provider)"
NP_PROJECT_LOCALES = ["en", "fr", "ru", "ar"]
NP_COUNTS = [0, 1, 2, 3, 4, 5, 6, 7, 8, 9, 10, 11, 12, 13, 14, 19, 20, 21, 22, 23, 24, 25, 99, 100, 101, 102, 103, 111, 112, 113,
             1000, 1001, 1000000, 2000000, 18446744073709551615]
NP_METHODS = ["num", "currency", "date", "time", "datetime", "and_list", "or_list", "unit_list", "plural"]


def unrenderable(o):
    """options of the known finding C18-zone (no ICU4X output exists)"""
    return o.get("f") in ("time", "datetime") and o.get("t") in ("full", "long")


def provider_call(loc, o):
    """the constructor call a custom provider must receive for (locale, documented options): [method, data locale, options]"""
    f = o["f"]
    if f == "number":
        return ("num", loc, (o["g"],))
    if f == "currency":
        return ("currency", loc, (o["w"],))      # the currency code is an argument of `format`, not of the constructor
    if f == "date":
        return ("date", loc, (o["d"],))
    if f == "time":
        return ("time", loc, (o["t"],))
    if f == "datetime":
        return ("datetime", loc, (o["d"], o["t"]))
    if f == "list":
        return (o["ty"] + "_list", loc, (o["st"],))
    raise HarnessError("provider_call: " + json.dumps(o))


def check_custom_provider(ctx, table=None, table_opts=None):
    """the build applications with their own ICU data use: leptos_i18n without `icu_compiled_data`, every formatter
    constructed by the provider given to `set_icu_data_provider` (harness fmt_np_h: a provider that forwards each trait
    method to the ICU4X constructor of that meaning, with ICU4X's compiled data, and records the call).  Every output
    must equal ICU4X called directly for the locale and the documented options, and the provider must have been asked
    exactly once for exactly the (constructor, locale, options) the requests denote."""
    binn = cargo_build(ctx, "fmt_np_h", variant="np")
    if binn is None:
        return
    rng = ctx.rng.fork()
    head, crash = run_lines(binn, [{"op": "locales"}, {"op": "table"}, {"op": "provider_log"}])
    if crash or len(head) != 3:
        raise HarnessError("fmt_np_h does not start: " + json.dumps(crash))
    if head[0] != LOCALES or head[2].get("project_locales") != NP_PROJECT_LOCALES or head[2].get("calls") != []:
        raise HarnessError("fmt_np_h locales / initial provider log differ from the check's: " + json.dumps([head[0], head[2]]))
    if table is None:
        table = head[1]
        table_opts = {e["key"]: r["spec"] for e, r in zip(table, lean_driver([clause_spec_req(e["tf"]) for e in table]))}
    elif head[1] != table:
        raise HarnessError("fmt_np_h serves another table than fmt_h")

    reqs, meta = [], []       # meta: (part, request whose documented options are `opts`, opts, index of the oracle request or None)

    def add(part, q, opts=None, extra=None):
        reqs.append(q)
        meta.append((part, opts, extra))
        return len(reqs) - 1

    # (a) the helpers, every kind x locale x renderable option combination x value set
    for kind in NAMES:
        vals = values_for(ctx, kind, rng)
        for loc in LOCALES:
            for o in option_combos(kind):
                if unrenderable(dict(o, f=kind)):
                    continue
                for v in vals:
                    q = dict({"op": "format", "locale": loc, "f": kind, "value": v}, **o)
                    add("format", q, q)
    # (b) the compiled-in table: declare_locales! keys and td_format*! literals, six macro flavours
    for e in table:
        opts = table_opts[e["key"]]
        if opts is None:
            raise HarnessError("table entry without documented options: " + json.dumps(e))
        if unrenderable(opts):
            continue
        for loc in LOCALES:
            for v in TABLE_VALS[e["kind"]]:
                oi = add("oracle", dict({"op": "format", "locale": loc, "value": v}, **opts), opts)
                add("table", {"op": "table_format", "locale": loc, "kind": e["kind"], "key": e["key"], "value": v}, opts, (e, oi))
    # (c) the small load_locales! project of the harness (locales/*.json): td_string! / td_display! of formatter keys, plural keys
    pdir = os.path.join(HARNESS_DIR, "fmt_np_h", "locales")
    files = {l: json.load(open(os.path.join(pdir, l + ".json"), encoding="utf-8")) for l in NP_PROJECT_LOCALES}
    pkeys = [(k, re.match(r"^\{\{\s*v\s*,\s*(.*?)\s*\}\}$", v, re.S)) for k, v in files["en"].items()]
    pkeys = [(k, m.group(1)) for k, m in pkeys if m]
    pspecs = [r["spec"] for r in lean_driver([clause_spec_req(c) for _, c in pkeys])]
    for (k, clause), opts in zip(pkeys, pspecs):
        if opts is None or any(files[l].get(k) != files["en"][k] for l in NP_PROJECT_LOCALES):
            raise HarnessError("fmt_np_h project key is not the same formatter clause in every locale: " + k)
        for loc in NP_PROJECT_LOCALES:
            for v in TABLE_VALS[opts["f"]]:
                oi = add("oracle", dict({"op": "format", "locale": loc, "value": v}, **opts), opts)
                add("project", {"op": "project", "locale": loc, "key": k, "value": v}, opts, ({"key": k, "file": files["en"][k]}, oi))
    counts = NP_COUNTS + [rng.below(10 ** rng.range(1, 9)) for _ in range(ctx.budget(10, 200))]
    for loc in NP_PROJECT_LOCALES:
        for rule in ("cardinal", "ordinal"):
            for n in counts:
                add("plural", {"op": "plural", "locale": loc, "rule": rule, "n": n}, None, ("plural", loc, (rule,)))
    log_at = add("log", {"op": "provider_log"})

    outs, crash = run_lines(binn, reqs, stall=STALL)
    if crash is not None or len(outs) != len(reqs):
        k = min(len(outs), len(reqs) - 1)
        report_violation(ctx, NP + "harness-crashes", {"request": reqs[k], "implementation": crash, "expected_by_spec": "an answer", "harness": NP_WHERE})
        return
    expected_calls = {}
    n = {"format": 0, "table": 0, "project": 0, "plural": 0}
    for q, (part, opts, extra), r in zip(reqs, meta, outs):
        if part in ("oracle", "log"):
            # the oracle side of a `format` answer is ICU4X alone; its implementation side is one more request of the same key
            if part == "oracle":
                expected_calls.setdefault(provider_call(q["locale"], opts), q)
            continue
        n[part] += 1
        if part == "format":
            raw = q["value"]["v"] if isinstance(q["value"], dict) else None
            ok = judge_format(ctx, q, r, NP_WHERE + " format", prefix=NP)
            ctx.seen({"np": q}, nontrivial=ok is True and r["oracle"] != raw)
            ctx.count("custom_provider:format:" + q["f"])
            expected_calls.setdefault(provider_call(q["locale"], opts), q)
            if ok is True and q["f"] == "list" and q["ty"] == "or" and q["locale"] == "fr" and len(q["value"]) == 3 and len(ctx.samples) < 6:
                ctx.sample({"custom_provider_request": q, "output": r["display"]})
            continue
        if part == "plural":
            ctx.seen({"np": q}, nontrivial=True)
            ctx.count("custom_provider:plural:" + q["rule"])
            expected_calls.setdefault(extra, q)
            # the `rank` key of ru / ar is a plain string (their ordinal rules have the single category `other`)
            if not isinstance(r, dict) or "oracle" not in r or r.get("impl") != r["oracle"] or r.get("string") != r["oracle"]:
                report_violation(ctx, NP + "plural-category", {
                    "request": q, "expected_by_spec": r.get("oracle") if isinstance(r, dict) else None, "implementation": r,
                    "why": "get_plural_rules(locale, rule).category_for(n) and the form td_string! renders for the keys `items` / `rank` "
                           "(each form's text is its category name) vs icu_plurals::PluralRules::try_new(locale, rule) called directly",
                    "harness": NP_WHERE + " plural"})
            continue
        e, oi = extra
        orr = outs[oi]
        ctx.seen({"np": q}, nontrivial=True)
        ctx.count("custom_provider:" + part + ":" + opts["f"])
        if not isinstance(orr, dict) or "oracle" not in orr:
            raise HarnessError("fmt_np_h: ICU4X gives no output for renderable options " + json.dumps(reqs[oi]) + ": " + json.dumps(orr))
        judge_format(ctx, reqs[oi], orr, NP_WHERE + " format", prefix=NP)
        want = orr["oracle"]
        if not isinstance(r, dict) or "string" not in r:
            report_violation(ctx, NP + "formatting-fails", {"request": q, "translation": e["file"], "implementation": r,
                                                            "expected_by_spec": want, "harness": NP_WHERE})
            continue
        got = {k: (norm_view(v, want) if k.endswith("view") else v) for k, v in r.items()}
        bad_file = {k: v for k, v in got.items() if not k.startswith("tf_") and v != want}
        bad_tf = {k: v for k, v in got.items() if k.startswith("tf_") and v != want}
        if bad_file:
            report_violation(ctx, NP + ("file-path-output:" if part == "table" else "project-output:") + opts["f"], {
                "translation": e["file"], "request": q, "documented_options": reqs[oi], "expected_by_spec": want, "implementation": bad_file,
                "harness": NP_WHERE + (" table_format: declare_locales! + td_string!/td_display!/td!" if part == "table" else
                                       " project: load_locales! (locales/*.json) + td_string!/td_display!") +
                           " vs ICU4X called directly with the documented options"})
        if bad_tf:
            report_violation(ctx, NP + "t_format-output:" + opts["f"], {
                "macro": "td_format*!(.., formatter: " + e["tf"] + ")", "request": q, "documented_options": reqs[oi],
                "expected_by_spec": want, "implementation": bad_tf, "harness": NP_WHERE + " table_format"})

    # ---- what the provider was asked for
    calls = [(c["m"], c["locale"], tuple(c["opts"])) for c in outs[log_at]["calls"]]
    if not calls:
        raise HarnessError("fmt_np_h: the installed provider was never called although formatters were served: "
                           "leptos_i18n was built with icu_compiled_data (feature unification?)")
    by_method = {}
    for c in calls:
        by_method[c[0]] = by_method.get(c[0], 0) + 1
    missing = [k for k in expected_calls if k not in calls]
    unexpected = sorted(set(c for c in calls if c not in expected_calls))
    repeated = sorted(set(c for c in calls if calls.count(c) > 1))
    if missing or unexpected or repeated:
        first = missing[0] if missing else None
        report_violation(ctx, NP + "constructor-calls", {
            "request": expected_calls[first] if first else None,
            "expected_by_spec": {"provider_call": first, "rule": "the provider is asked exactly once for each (constructor, data locale, options) "
                                 "the requests denote, and for nothing else"},
            "implementation": {"never_asked_for": missing[:10], "asked_for_instead": unexpected[:10], "asked_more_than_once": repeated[:10]},
            "harness": NP_WHERE + " provider_log"})
    elif sorted(by_method) != sorted(NP_METHODS):
        raise HarnessError("custom provider: not every IcuDataProvider method was exercised: " + json.dumps(by_method))
    ctx.count("custom_provider:constructor_calls", len(calls))
    ctx.extra["custom_provider"] = {
        "format_requests": n["format"], "table_requests": n["table"], "table_flavours": 6, "project_requests": n["project"],
        "plural_requests": n["plural"], "provider_calls": len(calls), "provider_calls_by_method": by_method,
        "distinct_expected_calls": len(expected_calls)}


def run(ctx):
    lean_check(ctx, "I18nVerif.Theorems.C18", "C18_")
    binp = cargo_build(ctx, "parser_h")
    binf = cargo_build(ctx, "fmt_h")
    if binp is None or binf is None:
        finish_broken(ctx, "harness does not build; nothing could be run")
        write_evidence(ctx, RULE)
        return
    locs, _ = run_lines(binf, [{"op": "locales"}])
    if locs[0] != LOCALES:
        raise HarnessError("fmt_h locales differ from the check's: " + json.dumps(locs[0]))
    check_selection(ctx, binp)
    check_references(ctx, binp)
    check_format_views(ctx)
    check_docs(ctx)
    table, table_opts = check_formatting(ctx, binf, binp)
    check_custom_provider(ctx, table, table_opts)
    pool = check_history(ctx, binf, table, table_opts)
    check_race(ctx, binf, pool)
    ctx.assumptions += [
        "ICU4X (icu_decimal 1.5, icu_datetime 1.5, icu_list 1.5, icu_experimental 0.1 with compiled data) is the oracle: "
        "the expected text is what ICU4X prints when called directly with the documented options and the locale being rendered",
        "std::sync::RwLock: each get_*_formatter call runs entirely under the write lock, so a multi-threaded run is a "
        "sequence of atomic cache steps (the 16-thread race is support evidence only)",
        "formatters are leaked (Box::leak) and never replaced: cache entries are immutable once inserted",
        "Formatter -> tokens (var_to_view / var_fmt / var_to_display) and rustc's compilation of them are tied by the "
        "compiled-in table (62 option combinations x 6 macro flavours x 8 locales), not by a theorem",
        "the harness maps option words to ICU option values by name (trusted, 7 small matches); the macro crate's own "
        "mapping is exercised by the table path",
        "custom provider (fmt_np_h): the provider handed to set_icu_data_provider is the harness's own (trusted, nine one-line "
        "methods: try_new_num_formatter -> FixedDecimalFormatter::try_new, _date_ -> DateFormatter::try_new_with_length, _time_ -> "
        "TimeFormatter::try_new_with_length, _datetime_ -> DateTimeFormatter::try_new, _and/_or/_unit_list_ -> "
        "ListFormatter::try_new_{and,or,unit}_with_length, _plural_rules -> PluralRules::try_new, _currency_ -> "
        "CurrencyFormatter::try_new, all with ICU4X's compiled data); the oracle calls the same ICU4X constructors directly, so "
        "what is checked is the forwarding impl of BakedDataProvider, the cache in front of it and the generated code, "
        "not ICU4X data; the derive macro `#[derive(IcuDataProvider)]` (needs a datagen-baked provider) is not exercised; "
        "time_length full|long (known finding C18-zone) is left out of part (v)",
    ]
    ctx.notes += ["impl vs spec: option selection (exhaustive product), outputs vs ICU4X, history/race vs fresh process, "
                  "custom-provider build: outputs vs ICU4X and provider constructor calls vs the requests' (constructor, locale, options)",
                  "impl vs model: parse_new trees equal for every generated clause incl. malformed ones",
                  "model vs spec: fmt.src (parseFormatter on the printed clause vs specFormatter) and fmt.cache invariants"]
    finish_broken(ctx, "all selection / formatting / history cases, impl vs spec on each")
    write_evidence(ctx, RULE)


def replay(ctx, payload):
    run(ctx)
