"""C02 — every accessor flavour of a key denotes the same text.
Theorems: lean/I18nVerif/Theorems/C02.lean (view = display = denotation; scope associativity).
Correspondence (X): compiled probe crates print, for every key / locale / argument assignment, td_string!,
td_display!, td! (HTML-normalised), t_string!/tu_string! through a context, and the same through chained
scope_locale! / scope_i18n! prefixes; all outputs of a group must be equal and equal to the denotation of the
parsed value."""
from .pipe import *
from . import probe

RULE = ("generated projects (subkeys, namespaces, ranges, plurals, foreign keys, components) compiled as probe crates; for every key x locale x 2-3 "
        "argument assignments all flavours are printed: td_string!, td_display!, td! (to_html), t_string!, tu_string!, t!, tu! via a context (views also built before the context's locale was set, rendered after), chained "
        "scope_locale!/scope_i18n! at a random split of the key path; non-trivial = the key takes arguments; distinct = distinct probe expression")
FLAVOURS = ("string", "display", "view", "ctx_string", "ctxu_string", "scoped_string", "scoped_display", "ctx_scoped_string",
            "ctx_view", "ctxu_view", "late_view", "lateu_view")


def run(ctx):
    lean_check(ctx, "I18nVerif.Theorems.C02", "C02_")
    probe.run_render_probe(ctx, ctx.rng, n_crates=ctx.budget(1, 4), flavours=FLAVOURS, sig_prefix="flavours", per_key=2, check_groups=True,
                           opts={"want_groups": True}, cap=1100, prio_share=0.7)
    ctx.assumptions += PARSER_ASSUMPTIONS + probe.ASSUMPTIONS
    finish_broken(ctx, "probe crates")
    write_evidence(ctx, RULE)
