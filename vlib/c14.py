"""C14 — URL locale prefixes: the locale read from a URL is the one whose name equals the first whole path
segment after the base path; switching the locale rewrites exactly that prefix (and the localized route
segments), keeps the base path, the other segments, the query and the fragment; switching there and back is
the identity on normalised URLs.
Theorems: lean/I18nVerif/Theorems/C14.lean.  Correspondence: harness router_h (the private functions of
leptos_i18n_router/src/routing.rs: get_locale_from_path, get_new_path, match_path_segments,
construct_path_segments, localize_path, PathBuilder) vs the Lean model `I18nVerif.Router`; property oracle
`Spec.localeOk` / `Spec.switchOkFull` / round-trip hypotheses evaluated by the Lean driver on the implementation's answer.
`Spec.switchOkFull` (= `Spec.switchOkStrong`) = `Spec.switchOk` (base, prefix, every remaining segment kept or replaced by
its counterpart, query, fragment) AND, when both locales have a route table: if a route of the old locale serves the old
remaining segments (`Spec.servesRow`, declarative: the way leptos_router serves them), the route with the same index of the
new locale serves the new ones - so a localized segment that is merely copied is a violation with a concrete input
(theorems `C14_switch_rewrites_localized`, `C14_match_iff_serves`).  Before the repair e02576e of match_path_segments the
code did not meet this on routes ending in an index route / optional param / splat; those shapes are corpus witnesses.

Route matching (signatures `nested_route:...`): a NATIVE `I18nNestedRoute` is built by router_h from a JSON route tree
(leptos_router's own NestedRoute / tuples of children / tuples of segments / Static-, Param-, OptionalParam-,
WildcardSegment and /repo's I18nSegment = `i18n_path!`; up to 4 x 3 x 2 routes, 3 levels, 1-3 segments per route) and
driven through `RouteDefs::new_with_base(route, base).match_route(path)` (op `match_nested`: several paths in turn on ONE
route object, so history matters), `generate_routes_for_each_locale` and `generate_routes` (op `route_tables`).
Spec `lean/I18nVerif/Spec/RouterNested.lean` (executable, evaluated by the Lean driver ops `router.nested` /
`router.tables`; python mirror `ncandidates` cross-checked on every case), theorems `Theorems/C14Nested.lean`:
the candidates of a URL under the base path are [the family of the locale whose name EQUALS the first segment after the
base: rest without it, that locale's localized segments, reports that locale] ++ [the un-prefixed family: the whole rest,
the DEFAULT locale's localized segments, reports None]; expected = the first candidate that is served, where "served" is
answered by the real leptos_router on the plain tree (op `plain_match`: same tree, the locale's words as plain static
segments) - so static/param/optional/splat semantics are leptos_router's own; not under the base path: nothing matches.
Tables: `generate_routes_for_each_locale` = for every locale the tree's routes in order with that locale's own words
(python `tree_rows`), every pair `Spec.compatTables` (the hypothesis the switching theorems assume; Lean `Spec.allCompat`),
`generate_routes` = the N+1 families (`Spec.familiesOf`).  There is no Lean *model* of match_nested (leptos_router's
matching is not modelled): impl vs spec only.
Known findings (unchanged tree, known_findings.txt C14-glued / C14-short): match_nested tests the locale prefix with
leptos_router's `StaticSegment::test`, which is not a whole-segment comparison: "/enabout" is served as locale en + route
about; with locales fr, fra the URL "/fr/utilisateurs" is served as locale fra (prefix "/fr").  Those cases stay in the
generator (signatures nested_route:locale-read-from-glued-segment / -from-shorter-segment print KNOWN-FINDING)."""
from .common import *

SETS = ["A", "B", "C", "D"]
RULE = ("URLs over four locale sets whose names are prefixes of each other and of ordinary words "
        "(en/en-US/english, fr/fra/franchise, pt/pt-BR/ptarmigan, zh/zh-Hant/zhou): paths of 0-5 segments drawn from "
        "the set's locale names, words that merely start with a locale name, ordinary words and the static segments of the "
        "route tables; placed under a base path of 0-2 segments written in every documented spelling (foo, /foo, foo/, "
        "/foo/, empty, /) and occasionally un-normalised, or not under it; with the current locale's prefix, another "
        "locale's prefix or none; sometimes with doubled/trailing slashes; queries and fragments with and without the "
        "leading '#'; no route tables, or tables for all/some locales generated from one random route tree "
        "(localized statics, params, optionals, splat, unit), about 10% deliberately incompatible; single switches, "
        "switch sequences of length 1-6, there-and-back round trips from normalised URLs, and the four helper functions "
        "directly; a switch is judged by Spec.switchOkFull: base path, new prefix, every remaining segment kept or "
        "replaced by its counterpart, query and fragment preserved, and (both locales having a route table) the new "
        "remaining segments served by the same route of the new locale whenever a route of the old locale serves the old "
        "ones (Spec.servesRow: static = that segment, empty static/unit = nothing, param = one, optional = zero or one, "
        "splat = the rest); routes end in an empty static / an optional param (absent, or present with any value) / a "
        "splat (with nothing or something left) about as often as not; non-trivial = the path is under the base path (locale reads: and has a segment after it; round trips: "
        "all hypotheses of the round-trip theorem hold; helpers: the pattern matches / no panic / something is pushed); "
        "distinct = distinct JSON cases (set, path, base, query, fragment, locales, tables). "
        "ROUTE MATCHING (native I18nNestedRoute via RouteDefs::match_route; ops match_nested / route_tables / plain_match): "
        "random route trees of 1-4 routes under the base route, nested up to 3 levels (up to 3 and 2 children below), every "
        "route path 1-3 segments drawn from: localized static (i18n_path!, one word per locale; 1 in 4 two locales share a "
        "word, 1 in 20 a word that is a locale name), plain static (incl. locale names and other locales' words), empty "
        "static (nested path=\"\" / index route), param, optional param, unit, splat (last segment of a leaf); base paths "
        "\"\", /foo, /en, /app/v1; per tree 3-8 URLs matched in turn on one route object (history): a route's segments for "
        "some locale's words with its own prefix / no prefix (default-locale form; for another locale: its localized words "
        "without its prefix) / another locale's prefix / the default's prefix / own prefix with another locale's words / a "
        "locale name glued to the next segment (/enabout) / a word that merely starts with a locale name (english, en-USA, "
        "fra, franchise); random words; not under the base path; 1 in 10 with a trailing slash; expected result = "
        "Spec.expectedMatch (Lean driver) over Spec.routeCandidates with leptos_router's answer on the plain tree of the "
        "candidate's locale as `serves`; compared: matched or not, which route (child indexes), reported locale, params. "
        "Every third tree also: generate_routes_for_each_locale = the tree's rows with each locale's own words, pairwise "
        "Spec.compatTables, generate_routes = N+1 families. Non-trivial (match_nested) = under the base path with at least "
        "one segment after it; (route_tables) = the tree has a localized segment whose words differ")

BASE_WORDS = ["foo", "app", "en", "fr", "v1"]
PREFIXY = ["english", "en-USA", "franchise", "fra", "frank", "ptarmigan", "zhou", "ensure", "en-", "-en", "EN", "En-us"]
ORDINARY = ["about", "a-propos", "page", "counter", "users", "42", "x"]
SEARCHES = ["", "a=1", "q=en&x=/fr/"]
HASHES = ["", "#top", "#/fr/x", "top"]
DICT = {
    "about": ["about", "a-propos", "sobre", "ueber", "acerca", "guanyu"],
    "users": ["users", "utilisateurs", "usuarios", "benutzer", "utenti", "yonghu"],
    "counter": ["counter", "compteur", "contador", "zaehler", "contatore", "jishu"],
}
SAME = ["page", "api", "v1", "x"]
PNAMES = ["id", "page", "x", "42", "slug"]
STATICS = sorted({w for vs in DICT.values() for w in vs} | set(SAME))
PUSHES = ["", "/", "foo", "/foo", "foo/", "/foo/", "//a//b//", "a/b", "a//b", "///", "x", "en", "/fr/"]
DIRECT = ("match", "construct", "localize", "path_builder")

# the three shapes the former match_path_segments did not recognise (repaired in e02576e)
TRAILING_TABLES = {"0": [[["s", ""], ["s", "about"], ["s", ""]]], "2": [[["s", ""], ["s", "a-propos"], ["s", ""]]]}
OPTIONAL_TABLES = {"0": [[["s", ""], ["s", "about"], ["o", "id"]]], "2": [[["s", ""], ["s", "a-propos"], ["o", "id"]]]}
SPLAT_TABLES = {"0": [[["s", ""], ["s", "users"], ["w", "rest"]]], "2": [[["s", ""], ["s", "utilisateurs"], ["w", "rest"]]]}
ABOUT_TABLES = {"0": [[["s", ""], ["s", "about"], ["p", "id"]]], "2": [[["s", ""], ["s", "a-propos"], ["p", "id"]]]}


# ----------------------------------------------------------------------------- generators

def gen_base(rng):
    """(spelling, segments)"""
    k = rng.weighted([(3, 0), (5, 1), (2, 2)])
    segs = [rng.pick(BASE_WORDS) for _ in range(k)]
    if not segs:
        return rng.pick(["", "/"]), segs
    core = "/".join(segs)
    sp = rng.weighted([(5, 0), (5, 1), (5, 2), (5, 3), (1, 4), (1, 5)])
    if sp == 0:
        return core, segs
    if sp == 1:
        return "/" + core, segs
    if sp == 2:
        return core + "/", segs
    if sp == 3:
        return "/" + core + "/", segs
    if sp == 4 or len(segs) < 2:
        return "//" + core + "//", segs
    return "//".join(segs), segs


def base_kind(b):
    if b == "":
        return "empty"
    if b == "/":
        return "slash"
    if "//" in b:
        return "unnormalised"
    return ("/" if b.startswith("/") else "") + "foo" + ("/" if b.endswith("/") else "")


def gen_tree(rng):
    rows = []
    for _ in range(rng.range(1, 4)):
        row = []
        if rng.chance(1, 2):
            row.append(("e",))
        n = rng.range(0, 4)
        for j in range(n):
            k = rng.weighted([(4, "S"), (2, "s"), (3, "p"), (2, "o"), (1, "u"), (1, "w"), (2, "e")])
            if k == "w" and j != n - 1:
                k = "p"
            if k == "e":
                row.append(("e",))          # a nested route with an empty path (`<ParentRoute path="">`): matches no segment
            elif k == "S":
                row.append(("S", rng.pick(sorted(DICT))))
            elif k == "s":
                row.append(("s", rng.pick(SAME)))
            elif k == "u":
                row.append(("u",))
            else:
                row.append((k, rng.pick(PNAMES)))
        if row and rng.chance(1, 5):
            row.append(("e",))              # an index route (`<Route path="">`) under a parent route: a trailing empty static
        rows.append(row)
    return rows


def inst_row(row, li):
    out = []
    for s in row:
        if s[0] == "e":
            out.append(["s", ""])
        elif s[0] == "S":
            out.append(["s", DICT[s[1]][li % len(DICT[s[1]])]])
        elif s[0] == "u":
            out.append(["u"])
        else:
            out.append([s[0], s[1]])
    return out


def inst_tree(tree, li):
    return [inst_row(r, li) for r in tree]


def spoil(rng, t):
    """make one locale's tables incompatible with the others (different row count / kinds / bad statics)"""
    t = [[list(s) for s in r] for r in t]
    how = rng.below(5)
    flat = [(i, j) for i, r in enumerate(t) for j in range(len(r))]
    if how == 0 or not flat:
        if len(t) > 0 and rng.chance(1, 2):
            del t[rng.below(len(t))]
        else:
            t.append([["s", "extra"]])
        return t
    i, j = rng.pick(flat)
    s = t[i][j]
    if how == 1:       # different kind
        t[i][j] = ["p", "id"] if s[0] in ("s", "u", "w") else ["s", "zzz"]
    elif how == 2:     # a static with a '/' inside
        t[i][j] = ["s", "a/b"]
    elif how == 3:     # empty vs non-empty
        t[i][j] = ["s", "root"] if s == ["s", ""] else ["s", ""]
    else:              # shorter / longer row
        if rng.chance(1, 2):
            del t[i][j]
        else:
            t[i].insert(j, ["o", "opt"])
    return t


def gen_tables(rng, n):
    """route tables of the n locales: {} | all | some; ~10% deliberately incompatible"""
    mode = rng.weighted([(30, "none"), (45, "all"), (25, "some")])
    if mode == "none":
        return {}
    tree = gen_tree(rng)
    idxs = list(range(n)) if mode == "all" else [i for i in range(n) if rng.chance(1, 2)]
    tabs = {str(i): inst_tree(tree, i) for i in idxs}
    if tabs and rng.chance(1, 5):
        keys = sorted(tabs, key=int)
        victims = [v for v in keys if rng.chance(1, 2)] or [rng.pick(keys)]
        for v in victims:
            tabs[v] = spoil(rng, tabs[v])
    return tabs


def word(rng, names):
    k = rng.weighted([(25, 0), (30, 1), (25, 2), (20, 3)])
    return rng.pick([names, PREFIXY, ORDINARY, STATICS][k])


def segs_for_row(rng, row, names):
    """segments that the route `row` matches"""
    out = []
    for s in row:
        if s[0] == "s":
            if s[1] and "/" not in s[1]:
                out.append(s[1])
        elif s[0] == "p":
            out.append(word(rng, names))
        elif s[0] == "o":
            if rng.chance(1, 2):            # present: any value (now and then the parameter's own name)
                out.append(s[1] if rng.chance(1, 5) else word(rng, names))
        elif s[0] == "w":
            out += [word(rng, names) for _ in range(rng.weighted([(3, 0), (3, 1), (2, 2), (2, 3), (1, 5)]))]   # also more segments than the route has elements
    return out


def gen_rest(rng, names, table, maxn=4):
    if table and rng.chance(1, 2):
        return segs_for_row(rng, rng.pick(table), names)[:maxn + 1]
    return [word(rng, names) for _ in range(rng.range(0, maxn))]


def spell(rng, segs, messy=True):
    p = "/" + "/".join(segs)
    if messy and rng.chance(15, 100):
        m = rng.below(3)
        if m == 0 and segs:
            p += "/"
        else:
            pos = [i for i, ch in enumerate(p) if ch == "/"]
            i = rng.pick(pos)
            p = p[:i] + "/" + p[i:]
    return p


def gen_path(rng, names, base_segs, locale, table):
    n = len(names)
    if locale is not None and locale != 0:
        pk = rng.weighted([(55, "cur"), (20, "other"), (25, "none")])
    elif locale == 0:
        pk = rng.weighted([(20, "cur"), (25, "other"), (55, "none")])
    else:
        pk = rng.weighted([(50, "other"), (50, "none")])
    pfx = [names[locale]] if pk == "cur" else [names[rng.below(n)]] if pk == "other" else []
    rest = gen_rest(rng, names, table, 4)
    tail = pfx + rest
    if rng.chance(85, 100):
        segs = base_segs + tail
    else:
        how = rng.below(3)
        if how == 0 or not base_segs:
            segs = ([rng.pick(ORDINARY)] if rng.chance(1, 2) else []) + tail
        elif how == 1 and tail:     # glued: "/foofr/x" under base "foo"
            segs = base_segs[:-1] + [base_segs[-1] + tail[0]] + tail[1:]
        else:
            segs = base_segs[:-1] + tail
    return spell(rng, segs)


def normal_url(base_segs, names, a, r):
    items = base_segs + ([] if a == 0 else [names[a]]) + r
    return "/" + "/".join(items) if items else "/"


def good_rest(rng, names, table):
    r = [s for s in gen_rest(rng, names, table, 4) if s and "/" not in s]
    if rng.chance(1, 10):
        r = [rng.pick(names)] + r[:3]
    return r


# ----------------------------------------------------------------------------- requests

def harness_req(c):
    k = c["kind"]
    if k == "locale":
        return {"op": "locale_from_path", "set": c["set"], "path": c["path"], "base": c["base"]}
    if k == "new_path":
        return {"op": "new_path", "set": c["set"], "path": c["path"], "search": c["search"], "hash": c["hash"],
                "base": c["base"], "new": c["new"], "locale": c["locale"], "tables": c["tables"]}
    if k == "switch_seq":
        return {"op": "switch_seq", "set": c["set"], "path": c["path"], "search": c["search"], "hash": c["hash"],
                "base": c["base"], "locale": c["locale"], "seq": c["seq"], "tables": c["tables"]}
    if k == "roundtrip":
        return {"op": "switch_seq", "set": c["set"], "path": c["path"], "search": "", "hash": "", "base": c["base"],
                "locale": c["a"], "seq": [c["b"], c["a"]], "tables": c["tables"]}
    if k == "match":
        return {"op": "match_segments", "segs": c["segs"], "pattern": c["pattern"]}
    if k == "construct":
        return {"op": "construct", "segs": c["segs"], "pattern": c["pattern"], "optionals": c["optionals"]}
    if k == "localize":
        return {"op": "localize", "path": c["path"], "old": c["old"], "new": c["new"]}
    if k == "path_builder":
        return {"op": "path_builder", "pushes": c["pushes"]}
    raise HarnessError("unknown case kind " + str(k))


def pairs(tables):
    return [[int(k), t] for k, t in sorted(tables.items(), key=lambda kv: int(kv[0]))]


def failed(r):
    """the implementation panicked (or the process died) on this request"""
    return "panic" in r or "crash" in r


def driver_req(c, sets, r):
    k = c["kind"]
    names = sets[c["set"]] if "set" in c else None
    if k == "locale":
        return {"op": "router.locale", "names": names, "path": c["path"], "base": c["base"],
                "impl": None if failed(r) else r["locale"]}
    if k == "new_path":
        return {"op": "router.new_path", "names": names, "tables": pairs(c["tables"]), "path": c["path"],
                "search": c["search"], "hash": c["hash"], "base": c["base"], "new": c["new"], "locale": c["locale"],
                "impl": None if failed(r) else r["out"]}
    if k == "switch_seq":
        return {"op": "router.switch_seq", "names": names, "tables": pairs(c["tables"]), "path": c["path"],
                "base": c["base"], "locale": c["locale"], "seq": c["seq"],
                "impl": None if failed(r) else r["paths"], "impl_reads": None if failed(r) else r["reads"]}
    if k == "roundtrip":
        return {"op": "router.roundtrip", "names": names, "tables": pairs(c["tables"]), "base": c["base"],
                "a": c["a"], "b": c["b"], "r": c["r"], "path": c["path"], "impl": None if failed(r) else r["paths"]}
    if k == "match":
        return {"op": "router.match", "segs": c["segs"], "pattern": c["pattern"]}
    if k == "construct":
        return {"op": "router.construct", "segs": c["segs"], "pattern": c["pattern"], "optionals": c["optionals"]}
    if k == "localize":
        return {"op": "router.localize", "path": c["path"], "old": c["old"], "new": c["new"]}
    if k == "path_builder":
        return {"op": "router.path_builder", "pushes": c["pushes"]}
    raise HarnessError("unknown case kind " + str(k))


def execute(binr, sets, cases):
    """all cases through the Rust harness and the Lean driver, one process each"""
    if not cases:
        return [], []
    impl = run_lines_resilient(binr, [harness_req(c) for c in cases])
    if len(impl) != len(cases):
        raise HarnessError(f"router_h answered {len(impl)} of {len(cases)} requests")
    for c, r in zip(cases, impl):
        if "bad_op" in r or "bad_line" in r:
            raise HarnessError("router_h rejected a request: " + json.dumps(r)[:300] + " for " + json.dumps(c)[:500])
    model = lean_driver([driver_req(c, sets, r) for c, r in zip(cases, impl)])
    if len(model) != len(cases):
        raise HarnessError(f"Lean driver answered {len(model)} of {len(cases)} requests")
    return impl, model


def fetch_sets(binr):
    locs, crash = run_lines(binr, [{"op": "locales", "set": s} for s in SETS])
    if crash is not None or len(locs) != len(SETS):
        raise HarnessError("router_h op locales failed: " + json.dumps(crash)[:500])
    for l in locs:
        if l.get("default") != 0:
            raise HarnessError("the default locale is not index 0: " + json.dumps(l))
    return {s: l["names"] for s, l in zip(SETS, locs)}


# ----------------------------------------------------------------------------- judgement of one case

def spec_fails_new_path(r, m):
    """impl vs spec for one get_new_path answer: None (passes / not judged) or the reason"""
    if not m["compat"]:
        return None
    if failed(r):
        return "panics"
    if m["spec_ok_impl"] is not True:
        return "spec"
    return None


def judge(c, r, m, sibling=None):
    """-> {"sig": violated-signature|None, "why": str, "diff": None|what differs between impl and model,
           "nontrivial": bool, "buckets": [...]};  raises HarnessError when the model breaks its own spec"""
    k = c["kind"]
    res = {"sig": None, "why": "", "diff": None, "nontrivial": True, "buckets": []}
    b = res["buckets"]
    if failed(r):
        b.append("impl_panics")
    if k == "locale":
        if not m["spec_ok_model"]:
            raise HarnessError("model violates its own proved specification: " + json.dumps(c))
        res["nontrivial"] = m["under_base"] and m["first"] is not None
        b.append("under_base=" + ("yes" if m["under_base"] else "no"))
        if failed(r):
            res["sig"], res["why"] = "locale_from_path:panics", "get_locale_from_path panicked"
        elif not m["spec_ok_impl"]:
            res["sig"] = "locale_from_path:not-whole-segment"
            res["why"] = ("the locale read from the URL must be the one whose name equals the first whole segment after "
                          "the base path (first segment: %s, under base: %s)" % (json.dumps(m["first"]), m["under_base"]))
        if failed(r) or r["locale"] != m["model"]:
            res["diff"] = "locale"
        return res
    if k == "new_path":
        mpanic = "panic" in m["model"]
        compat = m["compat"]
        b += ["compat=" + ("yes" if compat else "no"), "localized=" + ("yes" if m["localized"] else "no"),
              "under_base=" + ("yes" if m["under_base"] else "no"), "hash=" + ("present" if c["hash"] else "absent"),
              "tables=" + ("none" if not c["tables"] else "present")]
        if mpanic:
            b.append("model_panics")
        if compat and (mpanic or m["spec_ok_model"] is not True):
            raise HarnessError("model violates its own proved specification: " + json.dumps(c) + " -> " + json.dumps(m))
        res["nontrivial"] = m["under_base"]
        if not compat:
            b.append("incompatible_tables")
        f = spec_fails_new_path(r, m)
        if f == "panics":
            res["sig"], res["why"] = "new_path-panics", "get_new_path panicked although the route tables are compatible"
        elif f == "spec":
            frag_only = c["hash"] != "" and sibling is not None and spec_fails_new_path(*sibling) is None
            if frag_only:
                res["sig"] = "get_new_path:fragment"
                res["why"] = "the URL fragment is not preserved (the same switch without a fragment is right)"
            elif m.get("spec_weak_ok_impl") is True:
                res["sig"] = "get_new_path:localized-segment-not-rewritten"
                res["why"] = ("a route of the old locale serves the remaining segments of the old URL, but the route with the "
                              "same index in the new locale's table does not serve the remaining segments of the new URL: a "
                              "localized segment was copied instead of being replaced by its counterpart "
                              "(Spec.switchOk holds, Spec.switchOkFull does not)")
            else:
                res["sig"] = "get_new_path:prefix-or-rest-not-preserved"
                res["why"] = ("the new pathname must be: base path segments, the new locale's prefix (none for the default), "
                              "then the old remaining segments changed only in localized segments; followed by ?query#fragment")
        if failed(r) != mpanic or (not mpanic and not failed(r) and r["out"] != m["model"]["ok"]):
            res["diff"] = "out"
        return res
    if k == "switch_seq":
        mpanic = "panic" in m["model"]
        if mpanic:
            b.append("model_panics")
        b.append("seq_len=%d" % len(c["seq"]))
        b.append("seq_compat=" + ("yes" if m["compat"] else "no"))
        res["nontrivial"] = not mpanic and m["under_base"]
        if m["compat"]:
            # every step judged by Spec.switchOkFull, every pathname read back judged by Spec.localeOk
            if mpanic or m["spec_ok_model"] is not True:
                raise HarnessError("model violates its own proved specification: " + json.dumps(c) + " -> " + json.dumps(m))
            if failed(r):
                res["sig"], res["why"] = "new_path-panics", "get_new_path panicked although the route tables are compatible"
            elif not m["spec_ok_impl"]["steps"]:
                res["sig"] = "switch_seq:step-not-preserving"
                res["why"] = ("some step of the history does not satisfy Spec.switchOkFull (base path segments, new locale's "
                              "prefix, remaining segments changed only in localized segments, and served by the same route "
                              "of the new locale when a route of the old locale serves them)")
            elif not m["spec_ok_impl"]["reads"]:
                res["sig"] = "locale_from_path:not-whole-segment"
                res["why"] = "a locale read back from a pathname of the history is not the one named by its first whole segment"
        if failed(r) != mpanic:
            res["diff"] = "panic"
        elif not mpanic:
            if r["paths"] != m["model"]["ok"]:
                res["diff"] = "paths"
            elif r["reads"] != m["reads"]:
                res["diff"] = "reads"
        return res
    if k == "roundtrip":
        mpanic = "panic" in m["model"]
        hyp = m["hyp"]
        if mpanic:
            b.append("model_panics")
        b.append("roundtrip_hyp=" + ("yes" if hyp else "no"))
        res["nontrivial"] = hyp
        if hyp:
            if not m["ok_model"]:
                raise HarnessError("model violates its own proved specification: " + json.dumps(c) + " -> " + json.dumps(m))
            if failed(r):
                res["sig"], res["why"] = "new_path-panics", "get_new_path panicked although the route tables are compatible"
            elif not m["ok_impl"]:
                res["sig"] = "switch_roundtrip:not-identity"
                res["why"] = "switching a -> b -> a from the normalised URL must give the same URL back"
        if failed(r) != mpanic or (not mpanic and not failed(r) and r["paths"] != m["model"]["ok"]):
            res["diff"] = "paths"
        return res
    if k == "match":
        io = None if failed(r) or r["optionals"] is None else sorted(r["optionals"])
        mo = None if m["optionals"] is None else sorted(m["optionals"])
        res["nontrivial"] = mo is not None
        b.append("match=" + ("yes" if mo is not None else "no"))
        if failed(r) or io != mo:
            res["diff"] = "optionals"
        return res
    if k == "construct":
        mpanic = "panic" in m
        res["nontrivial"] = not mpanic
        if mpanic:
            b.append("model_panics")
        if failed(r) != mpanic or (not mpanic and r["built"] != m["ok"]):
            res["diff"] = "built"
        return res
    if k == "localize":
        mpanic = "panic" in m
        res["nontrivial"] = not mpanic and m["ok"]["localized"]
        if mpanic:
            b.append("model_panics")
        else:
            b.append("localized=" + ("yes" if m["ok"]["localized"] else "no"))
        if failed(r) != mpanic or (not mpanic and {"localized": r["localized"], "built": r["built"]} != m["ok"]):
            res["diff"] = "localized/built"
        return res
    if k == "path_builder":
        res["nontrivial"] = any(p.strip("/") for p in c["pushes"])
        if failed(r) or r["built"] != m["built"]:
            res["diff"] = "built"
        return res
    raise HarnessError("unknown case kind " + str(k))


def payload_for(c, r, m, j, sets):
    names = sets.get(c.get("set"))
    p = {"case": c, "names": names, "impl": r, "model": m.get("model", m), "driver": m, "why": j["why"],
         "harness": "router_h " + harness_req(c)["op"]}
    k = c["kind"]
    if k == "locale":
        p["expected_by_spec"] = {"locale": m["model"], "name": None if m["model"] is None else names[m["model"]],
                                 "first_segment_after_base": m["first"], "under_base": m["under_base"]}
        if not failed(r):
            p["impl_locale_name"] = None if r["locale"] is None else names[r["locale"]]
    elif k == "new_path":
        p["expected_by_spec"] = {"acceptable_result (the model's)": m["model"], "under_base": m["under_base"],
                                 "compatible_tables": m["compat"], "route_localized": m["localized"]}
    elif k == "roundtrip":
        p["expected_by_spec"] = {"paths[1] must equal": m["u0"], "model_paths": m["model"], "hypotheses_hold": m["hyp"]}
    if "expect" in c:
        p["expected_by_corpus"] = c["expect"]
    return p


# ----------------------------------------------------------------------------- case lists

def corpus():
    cs = []
    for path, base, exp in [("/english/page", "/", None), ("/en-US/x", "/", 1), ("/fra", "/", None),
                            ("/foofr/x", "foo", None), ("/foo/fr/bar", "foo", 2), ("/foo/fr/bar", "/foo", 2),
                            ("/foo/fr/bar", "foo/", 2), ("/foo/fr/bar", "/foo/", 2), ("/fr-CA", "", 3),
                            ("/", "", None), ("/foo", "foo", None)]:
        cs.append({"kind": "locale", "set": "A", "path": path, "base": base, "expect": exp})
    cs.append({"kind": "locale", "set": "B", "path": "/fra/x", "base": "", "expect": 1})
    cs.append({"kind": "locale", "set": "C", "path": "/pt/x", "base": "/", "expect": 1})
    cs.append({"kind": "locale", "set": "C", "path": "/zhou", "base": "/", "expect": None})

    def np(path, base, new, loc, exp, search="", hash_="", tables=None, set_="A"):
        return {"kind": "new_path", "set": set_, "path": path, "search": search, "hash": hash_, "base": base,
                "new": new, "locale": loc, "tables": tables or {}, "expect": exp}
    for base in ("", "/"):
        cs.append(np("/english-page", base, 2, 0, "/fr/english-page"))
        cs.append(np("/franchise", base, 0, 2, "/franchise?a=1#top", "a=1", "#top"))
        cs.append(np("/franchise", base, 0, 2, "/franchise?a=1", "a=1", ""))
        cs.append(np("/fr/a-propos/5", base, 0, 2, "/about/5", tables=ABOUT_TABLES))
        cs.append(np("/about/5", base, 2, 0, "/fr/a-propos/5#top", hash_="top", tables=ABOUT_TABLES))
        cs.append(np("/about", base, 2, 0, "/fr/a-propos", tables=TRAILING_TABLES))
        cs.append(np("/fr/a-propos", base, 0, 2, "/about", tables=TRAILING_TABLES))
        cs.append(np("/about", base, 2, 0, "/fr/a-propos", tables=OPTIONAL_TABLES))
        cs.append(np("/about/5", base, 2, 0, "/fr/a-propos/5", tables=OPTIONAL_TABLES))
        cs.append(np("/about/id", base, 2, 0, "/fr/a-propos/id?a=1", search="a=1", tables=OPTIONAL_TABLES))
        cs.append(np("/users", base, 2, 0, "/fr/utilisateurs", tables=SPLAT_TABLES))
        cs.append(np("/users/a/b", base, 2, 0, "/fr/utilisateurs/a/b", tables=SPLAT_TABLES))
        # more path segments than the route has elements: the splat takes them all
        cs.append(np("/users/a/b/c/d", base, 2, 0, "/fr/utilisateurs/a/b/c/d", tables=SPLAT_TABLES))
        cs.append(np("/fr/utilisateurs/a/b/c", base, 0, 2, "/users/a/b/c", tables=SPLAT_TABLES))
    for base in ("foo", "/foo", "foo/", "/foo/"):
        cs.append(np("/foo/fr/bar", base, 1, 2, "/foo/en-US/bar"))
    for base, a, b, r, t in [("foo", 2, 1, ["bar"], {}), ("", 0, 2, ["english-page"], {}), ("/", 0, 2, ["english-page"], {}),
                             ("", 2, 0, ["a-propos", "5"], ABOUT_TABLES), ("/foo/", 0, 2, ["about", "7"], ABOUT_TABLES),
                             ("", 0, 2, ["en", "x"], {}), ("", 2, 0, ["franchise"], {})]:
        names = ["en", "en-US", "fr", "fr-CA"]
        cs.append({"kind": "roundtrip", "set": "A", "base": base, "a": a, "b": b, "r": r, "tables": t,
                   "path": normal_url([s for s in base.split("/") if s], names, a, r)})
    out = []        # every switch with a fragment is followed by its fragment-less sibling
    for i, c in enumerate(cs):
        out.append(c)
        if c["kind"] == "new_path" and c["hash"]:
            sib = {k: v for k, v in dict(c, hash="").items() if k != "expect"}
            nxt = cs[i + 1] if i + 1 < len(cs) else None
            if nxt is None or {k: v for k, v in nxt.items() if k != "expect"} != sib:
                out.append(sib)
    cs = out
    cs.append({"kind": "switch_seq", "set": "A", "path": "/franchise", "search": "a=1", "hash": "#top", "base": "",
               "locale": 0, "seq": [2, 0, 1], "tables": {}})
    cs.append({"kind": "switch_seq", "set": "A", "path": "/foo/fr/a-propos/5", "search": "", "hash": "", "base": "foo",
               "locale": 2, "seq": [0, 3, 2, 1, 0], "tables": ABOUT_TABLES})
    cs.append({"kind": "switch_seq", "set": "B", "path": "/fra/frank", "search": "", "hash": "top", "base": "/",
               "locale": 1, "seq": [0, 2, 1], "tables": {}})
    return cs


def generate(ctx, sets):
    rng = ctx.rng
    total = ctx.budget(5000, 200000)
    cases = []
    # ~25% locale reads
    for _ in range(total * 25 // 100):
        s = rng.pick(SETS)
        names = sets[s]
        base, bsegs = gen_base(rng)
        loc = None if rng.chance(1, 4) else rng.below(len(names))
        cases.append({"kind": "locale", "set": s, "path": gen_path(rng, names, bsegs, loc, None), "base": base})
    # ~40% single switches (a case with a fragment is followed by its fragment-less sibling)
    n_np = 0
    while n_np < total * 40 // 100:
        s = rng.pick(SETS)
        names = sets[s]
        n = len(names)
        base, bsegs = gen_base(rng)
        tabs = gen_tables(rng, n)
        loc = None if rng.chance(1, 5) else rng.below(n)
        c = {"kind": "new_path", "set": s, "path": gen_path(rng, names, bsegs, loc, tabs.get(str(loc or 0))),
             "search": rng.pick(SEARCHES), "hash": rng.pick(HASHES), "base": base, "new": rng.below(n), "locale": loc,
             "tables": tabs}
        cases.append(c)
        n_np += 1
        if c["hash"]:
            cases.append(dict(c, hash=""))
            n_np += 1
    # ~10% switch sequences from a normalised URL
    for _ in range(total * 10 // 100):
        s = rng.pick(SETS)
        names = sets[s]
        n = len(names)
        base, bsegs = gen_base(rng)
        tabs = gen_tables(rng, n)
        a = rng.below(n)
        r = good_rest(rng, names, tabs.get(str(a)))
        cases.append({"kind": "switch_seq", "set": s, "path": normal_url(bsegs, names, a, r), "search": rng.pick(SEARCHES),
                      "hash": rng.pick(HASHES), "base": base, "locale": a,
                      "seq": [rng.below(n) for _ in range(rng.range(1, 6))], "tables": tabs})
    # ~15% round trips
    for _ in range(total * 15 // 100):
        s = rng.pick(SETS)
        names = sets[s]
        n = len(names)
        base, bsegs = gen_base(rng)
        tabs = gen_tables(rng, n)
        a, b2 = rng.below(n), rng.below(n)
        r = good_rest(rng, names, tabs.get(str(a)))
        cases.append({"kind": "roundtrip", "set": s, "base": base, "a": a, "b": b2, "r": r, "tables": tabs,
                      "path": normal_url(bsegs, names, a, r)})
    # ~10% the helper functions directly (construct cases are derived from the match results later)
    nd = total * 10 // 100 // 4
    allnames = sorted({x for v in sets.values() for x in v})
    for _ in range(nd * 2):     # half of them feed `construct`
        row = inst_row(rng.pick(gen_tree(rng)), rng.below(3))
        if rng.chance(1, 12):
            sp = spoil(rng, [row])
            row = sp[0] if sp else row
        segs = segs_for_row(rng, row, allnames) if rng.chance(6, 10) else [word(rng, allnames) for _ in range(rng.range(0, 5))]
        cases.append({"kind": "match", "segs": segs, "pattern": row})
    for _ in range(nd):
        tree = gen_tree(rng)
        old, new = inst_tree(tree, rng.below(3)), inst_tree(tree, rng.below(3))
        if rng.chance(1, 10):
            new = spoil(rng, new)
        elif rng.chance(1, 20):
            old = spoil(rng, old)
        segs = segs_for_row(rng, rng.pick(old), allnames) if old and rng.chance(6, 10) else \
            [word(rng, allnames) for _ in range(rng.range(0, 5))]
        cases.append({"kind": "localize", "path": spell(rng, segs), "old": old, "new": new})
    for _ in range(nd):
        cases.append({"kind": "path_builder", "pushes": [rng.pick(PUSHES + allnames[:3]) for _ in range(rng.range(0, 5))]})
    return cases


def construct_cases(ctx, cases, impl, model):
    """`construct` inputs: the optionals answered by `match` replayed on a compatible row (the same route for
    another locale), or random optionals / another row"""
    rng = ctx.rng
    out = []
    ms = [(c, m) for c, m in zip(cases, model) if c["kind"] == "match"]
    for c, m in ms[::2]:
        row = c["pattern"]
        if m["optionals"] is not None and rng.chance(3, 4):
            other = []
            for s in row:       # same shape, other static values
                if s[0] == "s" and s[1] and "/" not in s[1]:
                    other.append(["s", rng.pick(STATICS)])
                else:
                    other.append(list(s))
            out.append({"kind": "construct", "segs": c["segs"], "pattern": other, "optionals": sorted(m["optionals"])})
        else:
            opts = [i for i in range(len(row) + 1) if rng.chance(1, 3)]
            pat = row if rng.chance(1, 2) else inst_row(rng.pick(gen_tree(rng)), rng.below(3))
            out.append({"kind": "construct", "segs": c["segs"], "pattern": pat, "optionals": opts})
    return out


# ----------------------------------------------------------------------------- nested routes (I18nNestedRoute)
#
# The route-matching half: a native `I18nNestedRoute` (router_h ops `match_nested`, `route_tables`; leptos_router's own
# NestedRoute / tuples / segments, /repo's I18nSegment) against `Spec/RouterNested.lean`:
#   candidates of a URL = [the family of the locale whose name EQUALS the first segment after the base path
#   (segment removed, that locale's localized segments, reports that locale)] ++ [the un-prefixed family (whole rest,
#   DEFAULT locale's localized segments, reports no locale)]; expected = the first candidate that leptos_router itself
#   (op `plain_match`: the same tree with the locale's words as plain static segments) serves.

# base paths as leptos_router's <Router base=..> takes them (leading slash, no trailing one: RouteDefs::match_route strips
# the base as a string prefix, so after "/" or "/foo/" the route would get a path without its leading slash, on which
# leptos_router 0.7.8's ParamSegment drops the first character - leptos_router's matter, not generated)
NBASES = ["", "", "", "/foo", "/foo", "/en", "/app/v1"]
NSIG_GLUED = "nested_route:locale-read-from-glued-segment"
NSIG_SHORTER = "nested_route:locale-read-from-shorter-segment"


def psegments(p):
    return [x for x in p.split("/") if x]


def gen_nseg(rng, names, splat_ok):
    n = len(names)
    k = rng.weighted([(5, "l"), (4, "s"), (2, "e"), (3, "p"), (2, "o"), (1, "u"), (2 if splat_ok else 0, "w")])
    if k == "l":
        ws = list(DICT[rng.pick(sorted(DICT))][:n])
        if n > 1 and rng.chance(1, 4):        # two locales share a word
            i, j = rng.below(n), rng.below(n)
            ws[i] = ws[j]
        if rng.chance(1, 20):                 # a localized word that is a locale's name
            ws[rng.below(n)] = rng.pick(names)
        return ["l", ws]
    if k == "s":
        r = rng.below(20)
        if r < 2:
            return ["s", rng.pick(names)]                       # a static segment spelled like a locale name
        if r < 5:
            return ["s", rng.pick(STATICS)]                     # possibly some locale's word for a localized segment
        return ["s", rng.pick(SAME)]
    if k == "e":
        return ["s", ""]
    if k == "u":
        return ["u"]
    return [k, rng.pick(PNAMES)]


def gen_nnode(rng, names, depth):
    parent = depth < 3 and rng.chance(2, 5)
    nseg = rng.weighted([(6, 1), (3, 2), (1, 3)])
    p = [gen_nseg(rng, names, splat_ok=(not parent and j == nseg - 1)) for j in range(nseg)]
    if not parent:
        return {"p": p, "c": None}
    return {"p": p, "c": [gen_nnode(rng, names, depth + 1) for _ in range(rng.range(1, 3 if depth == 1 else 2))]}


def gen_ntree(rng, names):
    return [gen_nnode(rng, names, 1) for _ in range(rng.range(1, 4))]


def plain_seg(s, li):
    return ["s", s[1][li]] if s[0] == "l" else list(s)


def plain_tree(tree, li):
    """the same tree with locale li's words as plain static segments"""
    return [{"p": [plain_seg(s, li) for s in nd["p"]], "c": None if nd["c"] is None else plain_tree(nd["c"], li)}
            for nd in tree]


def tree_rows(tree, li, pre=None, at=()):
    """[(child indexes, row)]: the routes in the order leptos_router lists them; a row starts with the base route's
    empty static segment; `()` generates nothing"""
    pre = [["s", ""]] if pre is None else pre
    out = []
    for i, nd in enumerate(tree):
        row = pre + [plain_seg(s, li) for s in nd["p"] if s[0] != "u"]
        if nd["c"] is None:
            out.append((list(at) + [i], row))
        else:
            out += tree_rows(nd["c"], li, row, tuple(at) + (i,))
    return out


def tree_has_localized(tree):
    return any(any(s[0] == "l" and len(set(s[1])) > 1 for s in nd["p"]) or (nd["c"] is not None and tree_has_localized(nd["c"]))
               for nd in tree)


def ncandidates(names, path, base):
    """python mirror of Spec.routeCandidates (cross-checked against the Lean driver on every case)"""
    bs, ps = psegments(base), psegments(path)
    if ps[:len(bs)] != bs:
        return None
    rest = ps[len(bs):]
    pre = [[l, l, rest[1:]] for l, nm in enumerate(names) if rest and nm == rest[0]]
    return pre + [[None, 0, rest]]


def rest_str(rest, trailing):
    """the remaining segments as the URL path handed to a plain route tree"""
    return "".join("/" + x for x in rest) + ("/" if trailing else "")


def descriptor(r):
    """which route matched and with which parameters, as one comparable string; None = no match"""
    if r.get("matched") is None:
        return None
    return json.dumps({"route": r["matched"], "params": r["params"]}, sort_keys=True, ensure_ascii=False)


def gen_npaths(rng, names, base_segs, tree):
    n = len(names)
    rows = {l: tree_rows(tree, l) for l in range(n)}
    out = []
    for _ in range(rng.range(3, 8)):
        kind = "?"
        if rng.chance(4, 5) and rows[0]:
            l = rng.below(n)
            ri = rng.below(len(rows[l]))
            rest = segs_for_row(rng, rows[l][ri][1], names)
            pk = rng.weighted([(30, "own"), (30, "none"), (15, "other"), (8, "glued"), (7, "prefixy"), (5, "default"), (5, "mixed")])
            if pk == "own":
                tail = [names[l]] + rest
            elif pk == "none":
                tail = rest                     # for l != 0: another locale's localized words without its prefix
                pk = "none" if l == 0 else "none-foreign-words"
            elif pk == "other":
                tail = [names[rng.below(n)]] + rest
            elif pk == "default":
                tail = [names[0]] + rest
            elif pk == "mixed":                 # own prefix, the same route spelled in another locale's words
                l2 = rng.below(n)
                tail = [names[l]] + segs_for_row(rng, rows[l2][ri][1], names)
            elif pk == "glued":                 # a locale name written together with what follows: "/enabout", "/en-USx"
                k = rng.below(n)
                tail = [names[k] + rest[0]] + rest[1:] if rest else [names[k] + rng.pick(["x", "-", "s"])]
            else:
                tail = [rng.pick(PREFIXY)] + rest
            kind = pk
        else:
            tail = [word(rng, names) for _ in range(rng.range(0, 4))]
            kind = "random"
        if base_segs and rng.chance(1, 12):
            segs = ([rng.pick(ORDINARY)] if rng.chance(1, 2) else base_segs[:-1]) + tail
            kind = "not-under-base"
            if segs[:len(base_segs)] == base_segs:
                kind = "random"
            elif ("/" + "/".join(segs)).startswith("/" + "/".join(base_segs)):
                # "/env1" under base "/en": leptos_router's RouteDefs::match_route strips the base path as a string prefix
                # and hands "v1" to the route; not I18nNestedRoute's doing (trusted base: see assumptions) - not generated
                segs = ["zz"] + segs
        else:
            segs = base_segs + tail
        p = "/" + "/".join(segs)
        if segs and rng.chance(1, 10):
            p += "/"
        out.append((p, kind))
    return out


def nested_corpus():
    about = ["l", ["about", "about", "a-propos", "a-propos"]]
    demo = [{"p": [about], "c": None}, {"p": [["s", "home"]], "c": None}]
    deep = [{"p": [["s", ""]], "c": [{"p": [["s", "docs"], about], "c": [{"p": [["s", ""]], "c": None}, {"p": [["p", "id"]], "c": None}]}]},
            {"p": [["p", "page"]], "c": None}]
    cs = []
    # the default-locale form and the other locale's word without its prefix (seeded change C14-m5), in both orders
    cs.append({"kind": "nested", "set": "A", "base": "", "tree": demo,
               "paths": ["/about", "/a-propos", "/fr/a-propos", "/about", "/en/about", "/about", "/a-propos", "/fr/about",
                         "/en/a-propos", "/home", "/fr/home", "/fr-CA/a-propos", "/en-US/about", "/", "/fr"]})
    cs.append({"kind": "nested", "set": "A", "base": "/foo", "tree": demo,
               "paths": ["/foo/about", "/foo/a-propos", "/foo/fr/a-propos", "/about", "/fr/a-propos", "/foo/fr/a-propos/"]})
    cs.append({"kind": "nested", "set": "A", "base": "", "tree": deep,
               "paths": ["/docs/about", "/docs/a-propos", "/fr/docs/a-propos", "/fr/docs/a-propos/7", "/docs/about/7",
                         "/fr/docs/about", "/fr-CA/docs/a-propos/", "/english", "/en-US", "/fr"]})
    # names that are prefixes of each other and of ordinary words, over param routes
    params = [{"p": [["p", "a"]], "c": [{"p": [["o", "b"]], "c": None}]}]
    cs.append({"kind": "nested", "set": "A", "base": "", "tree": params,
               "paths": ["/english", "/en-US/x", "/en/x", "/fr-CA", "/franchise/x", "/en-USA/x"]})
    cs.append({"kind": "nested", "set": "B", "base": "/app/v1", "tree": params,
               "paths": ["/app/v1/fra/x", "/app/v1/fr/x", "/app/v1/frank", "/app/v1/franchise/fr"]})
    # the known finding C14-glued: a locale name written together with the next static segment
    cs.append({"kind": "nested", "set": "A", "base": "", "tree": demo, "paths": ["/enabout", "/fra-propos", "/enhome"]})
    cs.append({"kind": "tables", "set": "A", "base": "", "tree": demo})
    cs.append({"kind": "tables", "set": "A", "base": "/foo", "tree": deep})
    cs.append({"kind": "tables", "set": "D", "base": "", "tree": [{"p": [["l", ["about"]], ["o", "id"]], "c": None}]})
    return cs


def generate_nested(ctx, sets):
    rng = ctx.rng
    cases = []
    for _ in range(ctx.budget(700, 30000)):
        s = rng.pick(SETS)
        names = sets[s]
        base = rng.pick(NBASES)
        tree = gen_ntree(rng, names)
        ps = gen_npaths(rng, names, psegments(base), tree)
        cases.append({"kind": "nested", "set": s, "base": base, "tree": tree, "paths": [p for p, _ in ps],
                      "path_kinds": [k for _, k in ps]})
        if rng.chance(1, 3):
            cases.append({"kind": "tables", "set": s, "base": base, "tree": tree})
    return cases


def run_nested(ctx, binr, sets, cases):
    """-> number of nested-route evaluations; reports violations (signatures nested_route:...)"""
    # --- the implementation and leptos_router's answers for the plain trees, one batch
    reqs, plan = [], []
    for c in cases:
        names = sets[c["set"]]
        if c["kind"] == "tables":
            plan.append({"impl": len(reqs)})
            reqs.append({"op": "route_tables", "set": c["set"], "base": c["base"], "tree": c["tree"]})
            continue
        pl = {"impl": len(reqs), "cands": [], "oracle_at": {}}
        reqs.append({"op": "match_nested", "set": c["set"], "base": c["base"], "tree": c["tree"], "paths": c["paths"]})
        per_locale = {}
        for p in c["paths"]:
            cands = ncandidates(names, p, c["base"])
            pl["cands"].append(cands)
            for cd in cands or []:
                per_locale.setdefault(cd[1], [])
                q = rest_str(cd[2], p.endswith("/"))
                if q not in per_locale[cd[1]]:
                    per_locale[cd[1]].append(q)
        for l, qs in sorted(per_locale.items()):
            pl["oracle_at"][l] = (len(reqs), qs)
            reqs.append({"op": "plain_match", "set": c["set"], "tree": plain_tree(c["tree"], l), "paths": qs})
        plan.append(pl)
    resp = run_lines_resilient(binr, reqs)
    if len(resp) != len(reqs):
        raise HarnessError(f"router_h answered {len(resp)} of {len(reqs)} nested-route requests")
    for q, r in zip(reqs, resp):
        if "bad_op" in r or "bad_line" in r:
            raise HarnessError("router_h rejected a request: " + json.dumps(r)[:300] + " for " + json.dumps(q)[:500])
        if q["op"] == "plain_match" and failed(r):
            raise HarnessError("leptos_router (oracle, plain tree) failed: " + json.dumps(r)[:300] + " for " + json.dumps(q)[:800])

    # --- the judgement by the Lean specification
    dreqs, dmeta = [], []
    for ci, (c, pl) in enumerate(zip(cases, plan)):
        names = sets[c["set"]]
        r = resp[pl["impl"]]
        if c["kind"] == "tables":
            if failed(r):
                dmeta.append((ci, None, None))
                dreqs.append({"op": "router.tables", "names": names, "tables": [[] for _ in names], "routes": []})
                continue
            tabs = [r["tables"].get(str(l)) for l in range(len(names))]
            dmeta.append((ci, None, None))
            dreqs.append({"op": "router.tables", "names": names, "tables": [t if t is not None else [] for t in tabs],
                          "routes": r["routes"]})
            continue
        for pi, p in enumerate(c["paths"]):
            cands = pl["cands"][pi]
            oracle = []
            for cd in cands or []:
                at, qs = pl["oracle_at"][cd[1]]
                oracle.append(descriptor(resp[at]["results"][qs.index(rest_str(cd[2], p.endswith("/")))]))
            impl = None
            if not failed(r):
                x = r["results"][pi]
                impl = {"locale": x["locale"], "m": descriptor(x)}
            dmeta.append((ci, pi, oracle))
            dreqs.append({"op": "router.nested", "names": names, "path": p, "base": c["base"], "cands": cands or [],
                          "oracle": oracle, "impl": impl})
    dres = lean_driver(dreqs)
    if len(dres) != len(dreqs):
        raise HarnessError(f"Lean driver answered {len(dres)} of {len(dreqs)} nested-route requests")

    by_sig = ctx.extra.setdefault("spec_failures_by_signature", {})
    n_eval = 0

    def violation(sig, payload):
        by_sig[sig] = by_sig.get(sig, 0) + 1
        report_violation(ctx, sig, payload)

    for (ci, pi, oracle), q, m in zip(dmeta, dreqs, dres):
        c, pl = cases[ci], plan[ci]
        names = sets[c["set"]]
        r = resp[pl["impl"]]
        n_eval += 1
        ctx.count("set=" + c["set"])
        if c["kind"] == "tables":
            ctx.count("op=route_tables")
            case = {"kind": "tables", "set": c["set"], "base": c["base"], "tree": c["tree"]}
            ctx.seen(case, nontrivial=tree_has_localized(c["tree"]))
            ctx.count("tables:localized=" + ("yes" if tree_has_localized(c["tree"]) else "no"))
            pay = {"case": case, "names": names, "impl": r, "driver": m, "harness": "router_h route_tables"}
            if failed(r):
                violation("nested_route:panics", dict(pay, why="generate_routes_for_each_locale / generate_routes panicked"))
                continue
            expect = {str(l): [row for _, row in tree_rows(c["tree"], l)] for l in range(len(names))}
            if r["tables"] != expect:
                violation("nested_route:tables-not-each-locales-own-segments",
                          dict(pay, expected_by_spec=expect,
                               why="generate_routes_for_each_locale must list, for every locale, the routes of the tree in "
                                   "order with that locale's own localized segments"))
            elif not m["compat"]:
                violation("nested_route:tables-not-compatible",
                          dict(pay, why="the per-locale tables are not position-wise compatible (Spec.compatTables), the "
                                        "hypothesis of the switching theorems"))
            if not m["families_ok"]:
                violation("nested_route:generated-routes-not-n-plus-one-families",
                          dict(pay, expected_by_spec=m["families"],
                               why="generate_routes must list every locale's routes behind that locale's name, then the "
                                   "default locale's routes without prefix"))
            if not r["stable"] or any(x is not None for x in r["route_locale_after"]):
                ctx.count("tables:state-left-behind")
            if ci % 97 == 0:
                ctx.sample({"case": case, "impl_tables": r["tables"]})
            continue
        p = c["paths"][pi]
        kind = (c.get("path_kinds") or ["corpus"] * len(c["paths"]))[pi]
        case = {"kind": "nested", "set": c["set"], "base": c["base"], "tree": c["tree"], "path": p}
        if not m["mirror_ok"]:
            raise HarnessError("python mirror of Spec.routeCandidates differs from the Lean definition: " + json.dumps(q)[:800]
                               + " -> " + json.dumps(m)[:800])
        exp = m["expected"]
        ctx.seen(case, nontrivial=m["under_base"] and m["first"] is not None)
        ctx.count("op=match_nested")
        ctx.count("nested:path=" + kind)
        ctx.count("nested:history_pos=" + ("first" if pi == 0 else "later"))
        ctx.count("nested:under_base=" + ("yes" if m["under_base"] else "no"))
        named = len(m["cands"]) > 1
        if exp["m"] is None:
            ek = "no-route"
        elif exp["locale"] is not None:
            ek = "locale-family"
        else:
            ek = "default-family-after-locale-name" if named else "default-family"
        ctx.count("nested:expected=" + ek)
        pay = {"case": case, "history": c["paths"][:pi], "names": names, "harness": "router_h match_nested",
               "candidates (reported locale, locale whose segments are used, segments)": m["cands"],
               "leptos_router_on_plain_tree_per_candidate": oracle, "expected_by_spec": exp,
               "impl": None if failed(r) else r["results"][pi], "driver": m}
        if failed(r):
            ctx.count("nested:impl_panics")
            violation("nested_route:panics", dict(pay, impl=r, why="match_nested panicked"))
            continue
        x = r["results"][pi]
        if x["route_locale_after"] is not None:
            ctx.count("nested:state-left-behind")
        if m["spec_ok_impl"]:
            if pi % 5 == 0 and ci % 211 == 0:
                ctx.sample({"case": case, "impl": x, "expected": exp})
            continue
        first = m["first"]
        if not m["locale_ok_impl"]:
            nm = names[x["locale"]]
            if first is not None and first.startswith(nm) and len(first) > len(nm):
                sig = NSIG_GLUED
                why = ("the match reports locale %r although the first segment after the base path is %r: the locale name is "
                       "only a string prefix of the segment (leptos_router's StaticSegment::test stops at the end of its own "
                       "text, match_nested does not check that the segment ends there)" % (nm, first))
            elif first is not None and nm[:-1] == first and p[len("/" + "/".join(psegments(c["base"]) + [first])):][:1] == "/":
                sig = NSIG_SHORTER
                why = ("the match reports locale %r although the first segment after the base path is %r, the name without its "
                       "last character (leptos_router's StaticSegment::test accepts a segment that ends one character early "
                       "when a '/' follows, match_nested does not compare the whole segment itself)" % (nm, first))
            else:
                sig = "nested_route:locale-not-whole-segment"
                why = "the match reports locale %r but the first segment after the base path is %r" % (nm, first)
        elif not m["under_base"]:
            sig, why = "nested_route:not-under-base", "the path is not under the base path; nothing may match"
        elif not named:
            sig = "nested_route:unprefixed-url"
            why = ("the first segment after the base path is no locale's name: the URL must be matched as it is with the "
                   "DEFAULT locale's localized segments and report no locale (another locale's localized segment without "
                   "that locale's prefix does not match)")
        else:
            sig = "nested_route:prefixed-url"
            why = ("the first segment after the base path is the name of a locale: the rest must be matched with that "
                   "locale's localized segments and report it; failing that, the whole with the default locale's, reporting none")
        violation(sig, dict(pay, why=why))
    ctx.extra["nested_route_evaluations"] = n_eval
    return n_eval


# ----------------------------------------------------------------------------- the check

def run(ctx):
    proofs_ok = lean_check(ctx, "I18nVerif.Theorems.C14", "C14_")
    proofs_ok = lean_check(ctx, "I18nVerif.Theorems.C14Nested", "C14_") and proofs_ok
    binr = cargo_build(ctx, "router_h")
    if binr is None:
        finish_broken(ctx, "harness does not build; nothing could be run")
        return
    sets = fetch_sets(binr)
    cases = corpus() + generate(ctx, sets)
    impl, model = execute(binr, sets, cases)
    extra = construct_cases(ctx, cases, impl, model)
    impl2, model2 = execute(binr, sets, extra)
    cases, impl, model = cases + extra, impl + impl2, model + model2

    by_sig, diff_by_op, mism_by_op = {}, {}, {}
    mism = 0
    for i, (c, r, m) in enumerate(zip(cases, impl, model)):
        k = c["kind"]
        sibling = None
        if k == "new_path" and c["hash"] and i + 1 < len(cases):
            c2 = cases[i + 1]
            if c2["kind"] == "new_path" and c2["hash"] == "" and \
                    dict(c2, hash=c["hash"], expect=None) == dict(c, expect=None):
                sibling = (impl[i + 1], model[i + 1])
        j = judge(c, r, m, sibling)
        if k == "roundtrip" and m["u0"] != c["path"]:
            raise HarnessError("generator: the round-trip URL is not the normalised one: " + json.dumps(c) + " vs " + m["u0"])
        if "expect" in c and k in ("locale", "new_path"):
            got = m["model"] if k == "locale" else m["model"].get("ok")
            if got != c["expect"]:
                raise HarnessError("model disagrees with the corpus expectation: " + json.dumps(c) + " -> " + json.dumps(m))
        ctx.seen({x: v for x, v in c.items() if x != "expect"}, nontrivial=j["nontrivial"])
        ctx.count("op=" + k)
        if "set" in c:
            ctx.count("set=" + c["set"])
        if "base" in c:
            ctx.count("base=" + base_kind(c["base"]))
        for bkt in j["buckets"]:
            ctx.count(k + ":" + bkt if k not in ("new_path",) else bkt)
        if j["diff"]:
            diff_by_op[k] = diff_by_op.get(k, 0) + 1
        if j["sig"]:
            by_sig[j["sig"]] = by_sig.get(j["sig"], 0) + 1
            report_violation(ctx, j["sig"], payload_for(c, r, m, j, sets))
        elif j["diff"]:
            mism += 1
            mism_by_op[k] = mism_by_op.get(k, 0) + 1
            if not any(bk["name"] == "U/" + k for bk in ctx.broken):
                ctx.broken.append({"kind": "correspondence", "name": "U/" + k,
                                   "detail": {"case": c, "impl": r, "model": m, "differs": j["diff"]}})
        if i % 997 == 0:
            ctx.sample({"case": c, "impl": r, "model": m.get("model", m)})
    ncases = nested_corpus() + generate_nested(ctx, sets)
    n_nested = run_nested(ctx, binr, sets, ncases)
    ctx.extra["impl_vs_model_mismatches"] = mism
    ctx.extra["impl_vs_model_mismatches_by_op"] = mism_by_op
    ctx.extra["impl_vs_model_differences_by_op_including_spec_failures"] = diff_by_op
    ctx.extra["spec_failures_by_signature"] = dict(ctx.extra.get("spec_failures_by_signature", {}), **by_sig)
    ctx.extra["exhaustive"] = False
    ctx.assumptions += [
        "leptos_router's Location is an oracle: pathname/search/hash are passed as the browser gives them "
        "(pathname starts with '/', search without '?', hash with its leading '#' when non-empty)",
        "the default locale is index 0 of L::get_all() (checked on the four harness locale sets)",
        "get_new_path is judged on route tables of the shape generate_routes_for_each_locale produces (Spec.compatTables); "
        "answers on incompatible tables are only compared with the model. That the real generate_routes_for_each_locale "
        "produces that shape is checked on the generated route trees (op route_tables, Spec.allCompat)",
        "route matching: leptos_router's own matching of a plain route tree (NestedRoute, tuples, Static/Param/OptionalParam/"
        "WildcardSegment) is the oracle for how segments are served; RouteDefs::match_route strips the base path as a string "
        "prefix (leptos_router's code): base paths are given with a leading and without a trailing slash and URLs keep a "
        "segment boundary after the base path; route trees are limited to 3 levels below the base route, 4/3/2 children, "
        "1-3 segments per route (the static types router_h instantiates)",
        "the effects (update_path_effect, correct_locale_prefix_effect, maybe_redirect) are covered only through the pure "
        "functions they call; navigation itself is not run",
    ]
    finish_broken(ctx, f"{len(cases)} router cases (locale reads, switches, sequences, round trips, helper functions), "
                       f"impl vs spec and impl vs model on each; {n_nested} nested-route evaluations (match_nested on route "
                       "trees, route tables), impl vs spec with leptos_router on the plain tree as oracle")
    write_evidence(ctx, RULE)


def replay(ctx, payload):
    c = payload["case"]
    binr = cargo_build(ctx, "router_h")
    if binr is None:
        raise HarnessError("harness router_h does not build: " + json.dumps(ctx.broken)[:1500])
    if not os.path.exists(DRIVER):
        raise HarnessError("Lean driver not built (cd lean && lake build i18n-model)")
    sets = fetch_sets(binr)
    if c["kind"] in ("nested", "tables"):
        if c["kind"] == "nested" and "paths" not in c:      # the failing URL after the URLs matched before it on the same route
            c = dict(c, paths=list(payload.get("history") or []) + [c["path"]])
            c.pop("path")
        before = len(ctx.violations)
        run_nested(ctx, binr, sets, [c])
        print(json.dumps({"case": c, "names": sets.get(c["set"]),
                          "violated": [v["sig"] for v in ctx.violations[before:]],
                          "known_findings_hit": [k["sig"] for k in ctx.known]}, ensure_ascii=False, indent=1))
        return
    cs = [c]
    if c["kind"] == "new_path" and c["hash"]:
        cs.append(dict(c, hash=""))
    impl, model = execute(binr, sets, cs)
    sibling = (impl[1], model[1]) if len(cs) > 1 else None
    j = judge(c, impl[0], model[0], sibling)
    print(json.dumps({"case": c, "names": sets.get(c.get("set")), "impl": impl[0], "driver": model[0],
                      "violated": j["sig"], "why": j["why"], "impl_differs_from_model_in": j["diff"]},
                     ensure_ascii=False, indent=1))
    ctx.seen(c, nontrivial=j["nontrivial"])
    if j["sig"]:
        ctx.violations.append({"sig": j["sig"], "path": ctx.replay, "nofail": False})
        print(f"VIOLATION property={ctx.pid} replay={ctx.replay}", flush=True)
