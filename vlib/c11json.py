"""C11 (second sentence) — the file written by the build helper is valid JSON decoding to the same strings.
Theorems: lean/I18nVerif/Theorems/C11json.lean.  Correspondence: harness build_h (`write_translations`:
`TranslationsInfos::parse_at_dir` + `get_translations().write_to_dir`, files read back) vs the Lean model
`Escape.formatter`; property oracle `Spec.jsonOk` (strict JSON reader) evaluated by the Lean driver on the bytes of
each written file against the parser's string table; `serde_json` in the harness cross-checks the Lean reader.

`run_json_part(ctx)` is the entry point for the C11 check; `run(ctx)` makes `./check C11json` work standalone."""
from .common import *
from .c17 import gen_string, needs_care

RULE = ("generated projects (flat or with 2 namespaces, 1-3 locales, 1-8 keys, nested subkeys) whose translation strings are "
        "built from a pool of awkward characters (quotes, backslash, slash, < > & ', all C0 controls, U+007F, C1 controls, "
        "U+00A0, U+200B, U+2028, U+2029, U+FEFF, astral and boundary scalars, combining marks), awkward fragments "
        "(</script>, <!--, ]]>, \\u0041-looking text) and ordinary words; a quarter of the builds overwrite the output of an earlier build with longer texts; non-default locales / namespaces whose table is empty (file `{}`, all null, only variables); every written file is one evaluation; "
        "non-trivial = the file's table holds a string needing escaping or non-ASCII; distinct = distinct string tables")

LOCALES = ["en", "fr", "pt-BR"]
CORPUS_STRINGS = ["\u00a0", "\u200b", "\u0000", "\u0007", "a\"b\\c", "tab\tnl\ncr\r", "\u2028\u2029", "\U0001F600",
                  "e\u0301", "\u007f\u0080\u009f", "</script>", "\\u0041", "\ufeff", "'"]


def toml_str(s):
    return json.dumps(s)


def gen_project(rng, n, corpus=False):
    ns = None if rng.chance(2, 3) else ["common", "home"]
    locales = LOCALES[:rng.range(1, 3)]
    cargo = ('[package]\nname = "p%d"\nversion = "0.1.0"\nedition = "2021"\n\n[package.metadata.leptos-i18n]\n'
             'default = "en"\nlocales = [%s]\n' % (n, ", ".join(toml_str(l) for l in locales)))
    if ns:
        cargo += "namespaces = [%s]\n" % ", ".join(toml_str(x) for x in ns)
    nkeys = len(CORPUS_STRINGS) if corpus else rng.range(1, 8)
    keys = ["k%d" % i for i in range(nkeys)]
    subkeys = [k for k in keys if not corpus and rng.chance(1, 5)]
    files = {}
    for unit in (ns or [None]):
        for l in locales:
            obj = {}
            # a locale / namespace without a single string of its own (file `{}`, every key null, or only variables): its table is empty
            empty = None if (corpus or l == "en") else rng.pick([None, None, None, "absent", "null", "vars"])
            if empty is not None:
                for k in keys:
                    if empty == "null":
                        obj[k] = None
                    elif empty == "vars" and k not in subkeys:
                        obj[k] = "{{ v }}"
                path = "locales/%s/%s.json" % (l, unit) if unit else "locales/%s.json" % l
                files[path] = json.dumps(obj)
                continue
            for ki, k in enumerate(keys):
                kw = k
                if not corpus and l != "en" and rng.chance(1, 8):
                    kw = rng.pick([" " + k, k + " ", "\t" + k + " "])      # key names are trimmed (both builds of the parser must agree on it)
                if corpus:
                    obj[kw] = CORPUS_STRINGS[ki] if l == "en" else CORPUS_STRINGS[ki] + l
                elif k in subkeys:
                    obj[kw] = {"a": gen_string(rng, markup=False), "b": {"c": gen_string(rng, markup=False)}}
                else:
                    obj[kw] = gen_string(rng, markup=False)
            path = "locales/%s/%s.json" % (l, unit) if unit else "locales/%s.json" % l
            files[path] = json.dumps(obj, ensure_ascii=rng.chance(1, 3))
    p = {"cargo_toml": cargo, "files": files}
    if not corpus and rng.chance(1, 4):
        # the output directory already holds the files of an earlier build whose texts were longer (same keys)
        def longer(j):
            if isinstance(j, str):
                return j + " — and the rest of a much longer earlier wording \u00e9\u4e2d"
            if isinstance(j, dict):
                return {k: longer(v) for k, v in j.items()}
            return j
        p["previous_files"] = {path: json.dumps(longer(json.loads(text))) for path, text in files.items()}
    return p


def judge(m, f, strs):
    if not m["spec_ok_model"]:
        raise HarnessError("model violates its own proved specification: " + json.dumps(strs, ensure_ascii=False))
    sd, ld = f["serde"], m["spec_decode_impl"]
    if (ld is None) != ("ok" not in sd):
        raise HarnessError("Lean JSON reader and serde_json disagree on validity: " + json.dumps(f["raw"]))
    if ld is not None and sd["ok"] != ld:
        raise HarnessError("Lean JSON reader and serde_json decode differently: " + json.dumps(f["raw"]))
    spec_bad = None
    if not f["utf8"]:
        spec_bad = "not-utf8: the file is not UTF-8"
    elif not m["spec_ok_impl"]:
        spec_bad = ("not-json: the file is not valid JSON" if ld is None
                    else "wrong-strings: the file decodes to other strings than the table")
    return spec_bad, (None if m["model_eq_impl"] else "formatter")


def run_projects(binb, projects, tag):
    reqs = [dict(p, op="write_translations", work=os.path.join(WORK, "c11json-%s-%d-%d" % (tag, os.getpid(), i)))
            for i, p in enumerate(projects)]
    impl = run_lines_resilient(binb, reqs)
    lreqs, idx = [], []
    for pi, r in enumerate(impl):
        if "files" not in r:
            continue
        exp = {e["path"]: e["strings"] for e in r["expected"]}
        for f in r["files"]:
            if f["path"] in exp:
                lreqs.append({"op": "escape.json", "strs": exp[f["path"]], "impl": f["raw"]})
                idx.append((pi, f, exp[f["path"]]))
    return impl, idx, lean_driver(lreqs)


def check_projects(ctx, binb, projects, tag, count=True):
    impl, idx, model = run_projects(binb, projects, tag)
    for pi, r in enumerate(impl):
        if "files" in r:
            got, exp = sorted(f["path"] for f in r["files"]), sorted(e["path"] for e in r["expected"])
            if got != exp:
                report_violation(ctx, "json:file-set", {"project": projects[pi], "written": got, "expected_files": exp,
                                                        "why": "one file per locale (and namespace) expected"})
        elif "parse_err" in r:
            if count:
                ctx.count("project_rejected_by_parser")
        else:
            report_violation(ctx, "json:write-panics", {"project": projects[pi], "impl": r, "kind": "impl panics, crashes or io error"})
    # the tables the *macro* bakes (the parser as the proc-macro builds it, feature `quote`; harness parser_h) — the build helper is a separate
    # build of the same parser (without `quote`, as in a user's build.rs): what it writes must be the tables the generated code indexes
    from .pipe import build_parser
    binp = build_parser(ctx)
    if binp is not None:
        accepted = [pi for pi, r in enumerate(impl) if "files" in r]
        preqs = [{"op": "pipeline", "cargo_toml": projects[pi]["cargo_toml"], "files": sorted(map(list, projects[pi]["files"].items())), "operands": []} for pi in accepted]
        for pi, pr in zip(accepted, run_lines_resilient(binp, preqs)):
            ok = pr.get("result", {}).get("ok")
            if ok is None:
                report_violation(ctx, "json:helper-accepts-what-the-macro-rejects", {"project": projects[pi], "macro_side": str(pr.get("result"))[:300]})
                continue
            baked = {(("%s/" % ns["key"]) if ns["key"] else "") + l["name"] + ".json": l["strings"] for ns in ok["nss"] for l in ns["locales"]}
            for f in impl[pi]["files"]:
                wrote = f["serde"].get("ok")
                if count:
                    ctx.count("file_vs_baked_table")
                if f["path"] in baked and wrote is not None and wrote != baked[f["path"]]:
                    report_violation(ctx, "json:exported-table-differs-from-baked-table", {
                        "project": projects[pi], "file": f["path"], "implementation": wrote, "expected_by_spec": baked[f["path"]],
                        "why": "the file for lazy loading must hold, at each index, the text the generated code reads at that index",
                        "harness": "build_h write_translations (parser without `quote`) vs parser_h pipeline (parser with `quote`, the macro's build)"})
                    break
    mism = 0
    for (pi, f, strs), m in zip(idx, model):
        spec_bad, model_bad = judge(m, f, strs)
        if count:
            ctx.seen({"strs": strs}, nontrivial=any(needs_care(s) for s in strs))
            ctx.count("strings_written", len(strs))
            ctx.count("namespaced_file" if "/" in f["path"] else "flat_file")
            if len(ctx.samples) < 4 and any(needs_care(s) for s in strs) and pi % 5 == 0:
                ctx.sample({"table": strs[:4], "file": f["raw"][:200]})
        if spec_bad:
            sig = "json:" + spec_bad.split(":")[0]
            if not any(v["sig"] == sig for v in ctx.violations):
                bad = [s for s in strs if minimal_fails(binb, s, tag)]
                report_violation(ctx, sig, {
                    "project": projects[pi], "file": f["path"], "got_bytes": f["raw"], "serde_json": f["serde"],
                    "table": strs, "smallest_failing_strings": sorted(bad, key=len)[:3],
                    "expected_by_spec": "a JSON array decoding to the table; the model writes " + m["model"],
                    "why": spec_bad, "harness": "build_h write_translations"})
        elif model_bad:
            mism += 1
            if not any(b["name"] == "B/write_to_dir:" + model_bad for b in ctx.broken):
                ctx.broken.append({"kind": "correspondence", "name": "B/write_to_dir:" + model_bad,
                                   "detail": {"file": f, "table": strs, "model": m}})
    return mism


def minimal_fails(binb, s, tag):
    """does a one-string project with this string fail on its own?"""
    p = {"cargo_toml": '[package]\nname = "m"\nversion = "0.1.0"\nedition = "2021"\n\n[package.metadata.leptos-i18n]\n'
                       'default = "en"\nlocales = ["en"]\n', "files": {"locales/en.json": json.dumps({"k": s})}}
    try:
        impl, idx, model = run_projects(binb, [p], tag + "m")
        return any(judge(m, f, strs)[0] for (_, f, strs), m in zip(idx, model))
    except HarnessError:
        return False


def run_json_part(ctx):
    """C11, JSON-export half: proofs + correspondence.  Leaves finish_broken / write_evidence to the caller."""
    lean_check(ctx, "I18nVerif.Theorems.C11json", "C11_json")
    binb = cargo_build(ctx, "build_h")
    if binb is None:
        return
    rng = ctx.rng.fork()
    projects = [gen_project(rng, 0, corpus=True)] + [gen_project(rng, i + 1) for i in range(ctx.budget(700, 14000))]
    mism = 0
    for k in range(0, len(projects), 2000):
        mism += check_projects(ctx, binb, projects[k:k + 2000], "b%d" % k)
    ctx.extra["json_impl_vs_model_mismatches"] = mism
    ctx.extra["json_projects"] = len(projects)
    ctx.assumptions += [
        "a conforming JSON reader agrees with Spec.jsonDecodeStrings on the texts the latter accepts (the reader implements "
        "RFC 8259 strings/arrays/objects/null with white space; cross-checked against serde_json on every file)",
        "the filesystem returns the bytes `write_to_dir` wrote; the string table is the parser's `Locale.strings` "
        "(its agreement with the accessors' indices is the first half of C11)",
    ]


def run(ctx):
    run_json_part(ctx)
    finish_broken(ctx, "generated projects, every written file judged against the parser's table")
    write_evidence(ctx, RULE)


def replay(ctx, payload):
    binb = cargo_build(ctx, "build_h")
    if binb is None:
        raise HarnessError("harness does not build")
    check_projects(ctx, binb, [payload["project"]], "replay", count=False)
    if not ctx.violations:
        print("replay: the case no longer fails")
