"""C20 — the build helper requests exactly the ICU data the translations use.
Theorems: lean/I18nVerif/Theorems/C20.lean (option ∈ set ⇔ some builder key has a plural count / that formatter family;
with C08: ⇔ some resolved value uses it).  Correspondence (B): `TranslationsInfos::parse_at_dir` + `get_icu_keys()`
+ `get_locales()` + `get_namespaces()` on generated projects where plurals and formatters are placed only in a
non-default locale / only inside subkeys / only through a foreign key / only in one namespace; the returned data
keys must equal the union of the data keys of exactly the used options; locales = configured ones."""
from .pipe import *
import os

RULE = ("projects with random placement of one or more of {plural, number, date, time, datetime, list, currency} usages: in the default or only in a "
        "non-default locale, at top level or inside nested subkeys, directly or only through a foreign key, in one namespace of several, or not at all; "
        "non-trivial = at least one option expected; distinct = distinct project text")
FAMILY = {"number": "FormatNums", "date": "FormatDateTime", "time": "FormatDateTime", "datetime": "FormatDateTime", "list": "FormatList",
          "currency": "FormatCurrency", "plural": "Plurals"}


DOCUMENTED_KEYS = {
    "Plurals": {"plurals/cardinal@1", "plurals/ordinal@1"},
    "FormatNums": {"decimal/symbols@1"},
    "FormatList": {"list/and@1", "list/or@1", "list/unit@1"},
    "FormatCurrency": {"currency/essentials@1"},
    "FormatDateTime": {"datetime/gregory/datelengths@1", "datetime/gregory/datesymbols@1", "datetime/timelengths@1", "datetime/timesymbols@1",
                       "datetime/week_data@1", "decimal/symbols@1", "plurals/ordinal@1", "calendar/japanese@1", "calendar/japanext@1",
                       "datetime/buddhist/datelengths@1", "datetime/buddhist/datesymbols@1", "datetime/japanese/datelengths@1", "datetime/japanese/datesymbols@1"},
}


def mk_project(rng):
    locales = rng.sample(["en", "fr", "de", "ja", "en-GB", "fr-CA", "pt-BR", "pt-PT"], rng.range(1, 4))      # (also several locales of one language)
    default = locales[0]
    namespaces = rng.pick([None, None, ["common", "home"], rng.shuffle(rng.sample(["account", "common", "home", "legal", "shop"], rng.range(2, 4)))])
    # up to every family at once (the five options), spread over the namespaces
    uses = rng.sample(list(FAMILY), rng.weighted([(3, 0), (5, 1), (5, 2), (4, 3), (3, 4), (3, 5), (3, 6), (4, 7)]))
    files = {}
    expected = set()
    placements = []
    grp_name = rng.pick(["grp", "section", "menu_items", "stats", "g"])      # (names that are / are not themselves well-formed language tags)
    trees = {(ns, l): {"top": [("plain", "text"), ("hello", "hi {{ name }}")], "grp": [("leaf", "x")]} for ns in (namespaces or [None]) for l in locales}
    styles = {u: rng.below(3) for u in uses}
    mix_range = rng.chance(1, 6)
    mixed = []
    for u in uses:
        ns = rng.pick(namespaces) if namespaces else None
        where = rng.pick(["default", "other-locale", "subkey", "via-fk", "both"])
        tlocs = [default]
        if where == "other-locale" and len(locales) > 1:
            tlocs = [rng.pick(locales[1:])]
        elif where == "both":
            tlocs = list(locales)
        key = f"use_{u}"
        for l in locales:
            t = trees[(ns, l)]
            tgt = t["grp"] if where == "subkey" else t["top"]
            if l in tlocs:
                if u == "plural":
                    # a plural may never print its count; or print it in one form only
                    shape = styles[u]
                    one = "a single item" if shape in (0, 1) else "one {{ count }}"
                    many = "several items" if shape == 0 else "many {{ count }}"
                    tgt += [(f"{key}_one", one), (f"{key}_other", many)]
                else:
                    # the same variable may also be printed without the formatter (same string, or only in another locale)
                    shape = styles[u]
                    if shape == 0:
                        tgt += [(key, "v: {{ v, " + u + " }}")]
                    elif shape == 1:
                        tgt += [(key, "plain {{ v }} and formatted {{ v, " + u + " }}")]
                    else:
                        tgt += [(key, "v: {{ v, " + u + " }}" if l == tlocs[-1] else "v: {{ v }}")]
            else:
                # the key must exist in the default locale: a plain string there when the usage lives elsewhere
                if l == default:
                    tgt += [(key, "plain in default")]
                elif u == "plural" and where == "default" and mix_range:
                    # the same key counted by a *range* in a later locale: the documented answer is the error RangeAndPluralsMix
                    tgt += [(key, proj.A([proj.A(["none", proj.U(0)]), proj.A(["some {{ count }}"])]))]
                    mixed.append(key)
            if where == "via-fk" and l in tlocs:
                path = ((ns + ":") if ns else "") + key
                t["top"] += [(f"ref_{u}", f"$t({path})")]
        expected.add(FAMILY[u])
        placements.append((u, where, ns))
    for (ns, l), t in trees.items():
        files[(ns, l)] = proj.O(rng.shuffle(t["top"]) + [(grp_name, proj.O(t["grp"]))])
    return {"default": default, "locales": locales, "all_locales": locales, "namespaces": namespaces, "inherits": {}, "files": files,
            "extra_cfg": False, "meta": {}, "icu": {"expected": sorted(expected), "placements": placements, "deliberate_conflicts": mixed}}


def run(ctx):
    lean_check(ctx, "I18nVerif.Theorems.C20", "C20_")
    lean_check(ctx, "I18nVerif.Theorems.C20Full", "C20_")
    lean_check(ctx, "I18nVerif.Theorems.C20Pipeline", "C20_")
    rng = ctx.rng
    binb = cargo_build(ctx, "build_h")
    binp = build_parser(ctx)
    if binb is None or binp is None:
        finish_broken(ctx, "harness does not build")
        write_evidence(ctx, RULE)
        return
    projects = [mk_project(rng) for _ in range(ctx.budget(400, 5000))]
    projects += [proj.gen_project(rng) for _ in range(ctx.budget(150, 2000))]
    reqs = [{"op": "icu", "work": os.path.join(WORK, "c20"), "cargo_toml": proj.cargo_toml(p), "files": proj.file_list(p)} for p in projects]
    impl = run_lines_resilient(binb, reqs)
    pouts = run_projects(ctx, binp, projects)
    for p, q, r, po in zip(projects, reqs, impl, pouts):
        if "panic" in r or "crash" in r:
            report_violation(ctx, "icu:build-helper-panics", {"case": project_text(p), "impl": r})
            continue
        compare_model(ctx, "P/pipeline(C20)", p, po)
        if "parse_err" in r:
            ctx.count("rejected")
            if "icu" in p and not p["icu"]["deliberate_conflicts"]:
                # projects built from a placement plan are valid translations by construction (plain texts, interpolations, documented
                # formatters, plurals with the forms one / other, references to existing keys): there is nothing to reject
                report_violation(ctx, "icu:build-helper-rejects-valid-translations", {
                    "case": project_text(p), "implementation": r["parse_err"], "plan": p.get("icu"),
                    "expected_by_spec": "the data keys of the options these translations use (the project is valid by construction)", "harness": "build_h icu"})
            elif "ok" in po["ci"]:
                # the macro's loader accepts these translations (same parser, formatter features on): the build helper must too
                report_violation(ctx, "icu:build-helper-rejects-valid-translations", {
                    "case": project_text(p), "implementation": r["parse_err"], "plan": p.get("icu"),
                    "expected_by_spec": "the data keys of the options these translations use", "harness": "build_h icu vs parser_h pipeline"})
            continue
        # expected options: from the placement plan when there is one, else from the parser's own final values
        exp = set()
        if "ok" in po["ci"]:
            from .c08 import occ
            res = po["impl"]["result"]["ok"]
            for ns_out in res["nss"]:
                for path, lv in iter_bki(ns_out["keys"]):
                    for l in po["impl"]["cfg"]["locales"]:
                        v = locale_value_at(ns_out, l, path)
                        if v is None or v["t"] in ("default", "subkeys"):
                            continue
                        one = {"vars": {}, "comps": set(), "counts": {}}
                        occ(v, one)
                        for ck, tys in one["counts"].items():
                            if "plural" in tys:
                                exp.add("Plurals")
                        for n, fs in one["vars"].items():
                            for f in fs:
                                fam = FAMILY.get(json.loads(f)["f"])
                                if fam:
                                    exp.add(fam)
        if "icu" in p and set(p["icu"]["expected"]) != exp:
            raise HarnessError("generator plan and parser output disagree on the options used: " + json.dumps(project_text(p))[:500])
        per = dict((n, set(ks)) for n, ks in r["per_option"])
        # the data an option stands for must contain what ICU4X 1.5's constructors of that family are documented to load
        # (`try_new_unstable` bounds of PluralRules / FixedDecimalFormatter / ListFormatter / CurrencyFormatter / DateTimeFormatter with
        # AnyCalendar): an independent pin — the expectation below is otherwise read off the library's own `into_data_keys`
        for oname, need in DOCUMENTED_KEYS.items():
            if not need <= per.get(oname, set()):
                report_violation(ctx, "icu:option-lacks-documented-keys", {
                    "case": {"option": oname}, "missing": sorted(need - per.get(oname, set())), "implementation": sorted(per.get(oname, set())),
                    "expected_by_spec": sorted(need), "why": "a provider generated from these keys cannot build the formatters of this family",
                    "harness": "build_h icu (Options::into_data_keys)"})
        exp_keys = set()
        for o in exp:
            exp_keys |= per[o]
        got = set(r["keys"])
        ctx.seen(project_text(p), nontrivial=bool(exp))
        ctx.count("options:" + ",".join(sorted(exp)) if exp else "options:none")
        if got != exp_keys:
            missing = sorted(o for o in exp if not per[o] <= got)
            extra = sorted(o for o in per if o not in exp and per[o] and per[o] <= got and not per[o] <= exp_keys)
            report_violation(ctx, "icu:data-keys-differ", {"case": project_text(p), "expected_options": sorted(exp), "missing_options": missing,
                                                          "unexpected_options": extra, "plan": p.get("icu"), "implementation_keys": sorted(got)[:12]})
        # the datagen drivers: the keys of the translations, plus exactly the additional ones the build script supplies
        drv = r.get("drivers")
        if isinstance(drv, dict) and drv.get("panic"):
            report_violation(ctx, "icu:datagen-driver-panics", {"case": project_text(p)})
        elif isinstance(drv, dict):
            for name, ks in drv.items():
                extra = per[name.split(":", 1)[1]] if ":" in name else set()
                ctx.count("driver:" + name.split(":")[0])
                if set(ks) != exp_keys | extra:
                    report_violation(ctx, "icu:datagen-driver-keys-differ", {
                        "case": project_text(p), "driver": name, "expected_by_spec": sorted(exp_keys | extra), "implementation": sorted(ks),
                        "why": "the driver is configured with the data keys the translations use and the additional ones supplied, nothing else",
                        "harness": "build_h icu (build_datagen_driver*, keys read off the driver's Debug form)"})
                    break
        cfg = po["impl"].get("cfg")
        if cfg and r["locales"] != cfg["locales"]:
            report_violation(ctx, "icu:locales-differ", {"case": project_text(p), "expected_by_spec": cfg["locales"], "implementation": r["locales"]})
        if cfg and r["namespaces"] != cfg["namespaces"]:
            report_violation(ctx, "icu:namespaces-differ", {"case": project_text(p), "expected_by_spec": cfg["namespaces"], "implementation": r["namespaces"]})
        if isinstance(r["langids"], dict):
            report_violation(ctx, "icu:get_locales_langids-panics", {"case": project_text(p), "locales": r["locales"]})
        elif "icu" in p and sorted(x.lower() for x in r["langids"]) != sorted(x.lower() for x in p["locales"]):
            # the language identifiers handed to the datagen driver (generated locale names are plain language[-REGION] tags: their own
            # canonical form): one per configured locale — two locales of one language are two locales
            report_violation(ctx, "icu:locale-identifiers-differ", {"case": project_text(p), "expected_by_spec": sorted(p["locales"]), "implementation": r["langids"],
                                                                   "harness": "build_h icu (get_locales_langids, what the datagen driver is configured with)"})
    ctx.sample({"files": proj.file_list(projects[0]), "plan": projects[0]["icu"], "keys": impl[0].get("keys", [])[:5]})
    ctx.assumptions += PARSER_ASSUMPTIONS + ["that the listed data keys suffice for ICU4X at run time (last sentence of the property) depends on ICU's key tables: oracle"]
    finish_broken(ctx, f"{len(projects)} projects through the build helper")
    write_evidence(ctx, RULE)
