"""C07 — key sets are checked against the default locale, with exact diagnostics.
Theorems: lean/I18nVerif/Theorems/C07.lean. Correspondence: pipeline harness in both feature builds
(with / without `suppress_key_warnings`); the warnings the real code emits are compared, as a multiset, with the
set the property describes, computed independently from the files (and with the Lean model)."""
from .pipe import *

RULE = ("projects with nested subkeys / namespaces whose non-default locales have random missing, null, surplus and mismatching keys, "
        "random inherits maps, plural groups; both feature builds; non-trivial = at least one diagnostic expected; distinct = distinct project text")


def expected_warnings(p, cfg, oracle_cats, suppress):
    """(missing, surplus) sets of (locale, ns, path) per the property text"""
    default = cfg["default"]
    # (the `inherits` table as written in the manifest, not as the implementation decoded it)
    inherits = dict(p["inherits"]) if isinstance(p.get("inherits"), dict) else dict(cfg["inherits"])
    miss, surp = set(), set()
    for (ns, l), tree in p["files"].items():
        if l == default or l not in cfg["locales"]:
            continue
        dt = merged_key_tree(p["files"][(ns, default)])
        lt = merged_key_tree(tree)

        def rec(d, t, prefix):
            for k, dv in d.items():
                if k not in t:
                    if l not in inherits and not suppress:
                        miss.add((l, ns, prefix + (k,)))
                elif isinstance(dv, dict) and isinstance(t[k], dict):
                    rec(dv, t[k], prefix + (k,))
            if not suppress:
                for k in t:
                    if k not in d:
                        surp.add((l, ns, prefix + (k,)))
        rec(dt, lt, ())
    return miss, surp


def type_mismatches(p, cfg):
    """(locale, namespace, path) where one of the default locale / the locale has a group and the other a direct value"""
    out = []
    default = cfg["default"]
    for (ns, l), tree in p["files"].items():
        if l == default or l not in cfg["locales"] or (ns, default) not in p["files"]:
            continue

        def rec(d, t, prefix):
            for k, dv in d.items():
                if k in t and t[k] != "null" and dv != "null" and isinstance(dv, dict) != isinstance(t[k], dict):
                    out.append((l, ns, prefix + (k,)))
                elif k in t and isinstance(dv, dict) and isinstance(t[k], dict):
                    rec(dv, t[k], prefix + (k,))
        rec(merged_key_tree(p["files"][(ns, default)]), merged_key_tree(tree), ())
    return out


def has_null(j):
    if j is None:
        return True
    if isinstance(j, dict):
        return any(has_null(x) for x in (j.get("a") or [])) or any(has_null(kv[1]) for kv in (j.get("o") or []))
    return False


def with_empty_references(rng, p):
    """keys whose whole value is made of references to an empty string (`"emp": ""`, `"tit": "$t(emp)"`): values, not nulls"""
    for (ns, l), tree in p["files"].items():
        pre = (ns + ":") if ns else ""
        if l == p["default"] or rng.chance(2, 3):
            tree["o"].append(["emp", ""])
        if l == p["default"] or rng.chance(2, 3):
            tree["o"].append(["tit", f"$t({pre}emp)"])
            tree["o"].append(["tit2", f"$t({pre}emp)$t({pre}emp)"])
    return p


def make_oracle(suppress):
    def oracle(ctx, p, o, i):
        mm = type_mismatches(p, o["impl"]["cfg"]) if "cfg" in o["impl"] else []
        if mm:
            ctx.count("type-mismatch-projects")
        if "ok" in o["ci"] and mm:
            report_violation(ctx, "diagnostics:subkey-mismatch-accepted", {
                "case": project_text(p), "mismatches": [list(map(str, x)) for x in mm], "implementation": "accepted",
                "expected_by_spec": "error SubKeyMissmatch naming the locale and the key: one side has subkeys, the other a direct value",
                "harness": "parser_h pipeline" + (" (suppress)" if suppress else "")})
            return
        if o["ci"].get("err") == "SubKeyMissmatch" and not mm:
            report_violation(ctx, "diagnostics:subkey-mismatch-spurious", {"case": project_text(p), "implementation": o["impl"].get("result")})
            return
        if o["ci"].get("err") == "ExplicitDefaultInDefault" and "cfg" in o["impl"]:
            # `null` in the default locale is an error — only a written `null` is: a value that happens to be empty (references to
            # empty strings, `""`) is a value
            dflt = o["impl"]["cfg"]["default"]
            if not any(has_null(t) for (ns, l), t in p["files"].items() if l == dflt):
                report_violation(ctx, "diagnostics:explicit-default-spurious", {
                    "case": project_text(p), "implementation": o["impl"].get("result"),
                    "expected_by_spec": "no `null` is written anywhere in the default locale: nothing to report there",
                    "harness": "parser_h pipeline" + (" (suppress)" if suppress else "")})
                return
        if "ok" not in o["ci"]:
            ctx.seen(project_text(p), nontrivial=False)
            return
        res = o["impl"]["result"]["ok"]
        cfg = o["impl"]["cfg"]
        miss, surp = expected_warnings(p, cfg, None, suppress)
        got_m, got_s = [], []
        for w in res["warnings"]:
            t = (w["locale"], w["path"]["ns"], tuple(w["path"]["path"]))
            if w["w"] == "missing":
                got_m.append(t)
            elif w["w"] == "surplus":
                got_s.append(t)
        ctx.seen(project_text(p), nontrivial=bool(miss or surp))
        ctx.count("expected_missing", len(miss))
        ctx.count("expected_surplus", len(surp))
        bad = None
        srt = lambda xs: sorted(xs, key=lambda t: (t[0], t[1] or "", t[1] is None, t[2]))     # (the namespace may be None)
        if srt(got_m) != srt(miss):
            bad = ("missing", srt(miss), srt(got_m))
        elif srt(got_s) != srt(surp):
            bad = ("surplus", srt(surp), srt(got_s))
        if any(w["locale"] == cfg["default"] and w["w"] in ("missing", "surplus") for w in res["warnings"]):
            bad = ("diagnostic for the default locale", [], res["warnings"])
        if bad:
            report_violation(ctx, "diagnostics:" + bad[0], {
                "case": project_text(p), "suppress_key_warnings": suppress, "expected_by_spec": [list(map(str, x)) for x in bad[1]],
                "implementation": [list(map(str, x)) for x in bad[2]] if bad[0] != "diagnostic for the default locale" else bad[2],
                "harness": "parser_h pipeline" + (" (suppress)" if suppress else "")})
        # accessible keys = keys of the default locale after plural merging, for every locale
        for ns_out in res["nss"]:
            dt = merged_key_tree(p["files"][(ns_out["key"], cfg["default"])])

            def keyset(d, prefix=()):
                out = set()
                for k, v in d.items():
                    if isinstance(v, dict):
                        out |= keyset(v, prefix + (k,))
                    else:
                        out.add(prefix + (k,))
                return out
            got = {path for path, _ in iter_bki(ns_out["keys"])}
            if got != keyset(dt):
                report_violation(ctx, "diagnostics:accessible-keys", {"case": project_text(p), "expected_by_spec": sorted(map(list, keyset(dt))),
                                                                     "implementation": sorted(map(list, got))})
        if i % 131 == 0:
            ctx.sample({"files": proj.file_list(p), "warnings": res["warnings"][:6]})
    return oracle


def run(ctx):
    rng = ctx.rng
    n = ctx.budget(700, 15000)
    opts = {"fk": False}
    projects = [proj.gen_project(rng, opts) for _ in range(n)]
    generic_pipeline_check(ctx, [("I18nVerif.Theorems.C07", "C07_"), ("I18nVerif.Theorems.C07Pipeline", "C07_")], projects, make_oracle(False), "C07")
    # every shape of `inherits` on 4 locales (chains, forks, cycles, a locale inheriting from itself) x presence patterns of a key and a group leaf:
    # an entry in `inherits` silences the missing report, whatever it points at
    from .c03 import exhaustive_projects
    corpus = exhaustive_projects()
    generic_pipeline_check(ctx, [], rng.sample(corpus, min(len(corpus), ctx.budget(300, 6000))), make_oracle(False), "C07-inherits-shapes")
    projects3 = [with_empty_references(rng, proj.gen_project(rng, opts)) for _ in range(n // 4)]
    generic_pipeline_check(ctx, [], projects3, make_oracle(False), "C07-empty-references")
    projects2 = [proj.gen_project(rng, opts) for _ in range(n // 2)]
    generic_pipeline_check(ctx, [], projects2, make_oracle(True), "C07-suppress", suppress=True)
    ctx.assumptions += PARSER_ASSUMPTIONS
    finish_broken(ctx, f"{len(projects) + len(projects2) + len(projects3)} projects in two feature builds")
    write_evidence(ctx, RULE)
