"""C17 — server-embedded translations survive embedding into the page.
Theorems: lean/I18nVerif/Theorems/C17.lean.  Two modes, both on harness runtime_dyn_h (`dynamic_load`+`ssr`):

1. `embed` — arbitrary strings: the real `RegisterCtx::{provide_context, register, to_array}` driven through
   hand-written `TranslationUnit`s whose strings come from the request, several concurrent renders, vs the Lean
   model `Escape.registered` / `Escape.toArray`; property oracle `Spec.embedOk` (strict script reader + HTML
   script-safety) evaluated by the Lean driver on the implementation's script; `serde_json` in the harness
   cross-checks the Lean reader.
2. `render_real` — real renders: the accessors *generated* by `load_locales!()` from the harness's own `locales/`
   (`t_string!`, `t_display!`, `td_string!` evaluated eagerly while the children are built, `t!` views evaluated
   when the page is rendered; all reach the generated `get_translations()`) inside the *generated*
   `<I18nContextProvider>`; several renders one after the other in the same process.  The `<script>` of each
   rendered page is judged by the same oracle against the units that render touched (strings = the content of
   the locale files), plus: one script per page, every accessor's text is in its unit's list and equals the file's
   text, a unit has the same strings in every render.  Signatures `embed:real-render-*`."""
import html as _html
import re as _re
from .common import *

RULE = ("translation strings built from a pool of awkward characters (quotes, backslash, slash, < > & ', LF CR TAB, "
        "all C0 controls, U+007F, C1 controls, U+00A0, U+200B, U+2028, U+2029, U+FEFF, astral and boundary scalars, "
        "combining marks), awkward fragments (</script>, <!--, ]]>, \\u0041-looking text, </SCRIPT ...) and ordinary "
        "words; unit sets over a namespaced project (3 locales x 3 namespaces) and a flat one (3 locales, id null); "
        "1-3 concurrent renders with interleaved, repeated registrations, registrations before the context exists, "
        "defined-but-untouched units; non-trivial = the render registered at least one unit holding at least one "
        "string that needs escaping or is non-ASCII; distinct = distinct (render history, strings) pairs.  "
        "Real renders (generated accessors inside the generated <I18nContextProvider>, strings from the harness's locale "
        "files: 3 locales x 3 namespaces x 3 keys with quotes, backslash, </script>, <!--, LF, TAB, U+2028, non-ASCII): "
        "requests of 1-4 renders run one after the other in one process, 0-5 accesses per render (in a third of the requests some of them below an <I18nSubContextProvider> of the page), each access = "
        "(namespace, locale, how) with how in eager_string (t_string!), eager_display (t_display!), td_string (td_string!) "
        "- evaluated while the provider's children are built - and reactive_view (t! evaluated when the page is rendered); "
        "units drawn mostly from a small per-request pool so that renders repeat units of earlier renders, units touched "
        "only eagerly / only reactively / both, renders touching nothing; non-trivial = the render touched at least one "
        "unit; distinct = distinct (earlier renders of the request, this render)")

NASTY = (['"', '\\', '/', '<', '>', '&', "'", '\n', '\r', '\t'] + [chr(i) for i in range(0x20)] + ['\x7f']
         + [chr(i) for i in range(0x80, 0xa0)]
         + ['\u00a0', '\u200b', '\u2028', '\u2029', '\ufeff', '\U0001F600', '\u0301', '\u0308', '\u20e3',
            '\ud7ff', '\ue000', '\uffff', '\U00010000', '\U0010ffff', '\u00ad', '\u061c', '\u202e', '`', '$', '{', '}'])
FRAGS = ['</script>', '<!--', ']]>', '\\u0041', '</SCRIPT>', '</ScRiPt >', '-->', '\\"', '\\\\', '${x}', '\\n', '<script>',
         '&quot;', '\\u{a0}', '\\x41', '\\u003C', '<\\/script>', '"];alert(1);//', '\\', '"', '<', "';", '\\u2028', '\\ud83d']
WORDS = ['hello', 'Bonjour', 'olá', '日本語', 'Ünïcödé', 'a b', '0', 'Click here', 'naïve café', 'Ελληνικά', 'עברית', '👩‍👩‍👧']
# pieces the translation-file parser would interpret; only used where strings do not go through it
MARKUP = ['{{ count }}', '<b>', '</b>', '$t(x)']


def gen_string(rng, markup=True):
    n = rng.weighted([(1, 0), (4, 1), (5, 2), (4, 3), (3, 5), (1, 9)])
    out = []
    for _ in range(n):
        k = rng.below(10)
        if k < 5:
            out.append(rng.pick(NASTY))
        elif k < 7:
            out.append(rng.pick(FRAGS))
        elif k < 9 or not markup:
            out.append(rng.pick(WORDS))
        else:
            out.append(rng.pick(MARKUP))
    return "".join(out)


def needs_care(s):
    return any(c in '"\\<' or ord(c) < 0x20 or ord(c) > 0x7e for c in s)


def gen_case(rng):
    flat = rng.chance(1, 4)
    nid = 1 if flat else 3
    slots = [(l, i) for l in range(3) for i in range(nid)]
    defined = rng.sample(slots, rng.range(1, len(slots)))
    units = []
    for (l, i) in defined:
        nv = rng.weighted([(1, 0), (4, 1), (4, 2), (3, 3), (1, 6)])
        units.append({"loc": l, "id": i, "values": [gen_string(rng) for _ in range(nv)]})
    renders = rng.weighted([(5, 1), (3, 2), (1, 3)])
    steps = []
    for _ in range(rng.weighted([(1, 0), (3, 1), (4, 3), (3, 6), (1, 12)])):
        # mostly defined units, sometimes a slot nobody defined (an empty table)
        (l, i) = rng.pick(defined) if not rng.chance(1, 10) else rng.pick(slots)
        steps.append([rng.below(renders), l, i])
    pre = [list(rng.pick(defined)) for _ in range(rng.weighted([(4, 0), (1, 1), (1, 2)]))]
    return {"flat": flat, "units": units, "renders": renders, "pre": pre, "steps": steps}


CORPUS = [
    # F16 witnesses
    {"flat": True, "units": [{"loc": 0, "id": 0, "values": ["</script>"]}], "renders": 1, "pre": [], "steps": [[0, 0, 0]]},
    {"flat": True, "units": [{"loc": 0, "id": 0, "values": ["\""]}], "renders": 1, "pre": [], "steps": [[0, 0, 0]]},
    {"flat": False, "units": [{"loc": 1, "id": 2, "values": ["a\\", "b\nc", "\\u0041"]}], "renders": 1, "pre": [], "steps": [[0, 1, 2]]},
    {"flat": False, "units": [{"loc": 0, "id": 0, "values": ["<!--", "\u2028 \u2029", "\u0000\u001f"]},
                              {"loc": 2, "id": 1, "values": ["untouched"]}],
     "renders": 2, "pre": [[0, 0]], "steps": [[0, 0, 0], [1, 0, 0], [0, 0, 0]]},
    {"flat": False, "units": [{"loc": 0, "id": 0, "values": []}], "renders": 1, "pre": [], "steps": []},
]


def histories(case, names):
    """per render: the list of units it registered, in order (the `hist` of the model)"""
    table = {(u["loc"], u["id"]): u["values"] for u in case["units"]}
    locs = names["flat_locales"] if case["flat"] else names["ns_locales"]
    out = [[] for _ in range(case["renders"])]
    for (r, l, i) in case["steps"]:
        out[r].append({"locale": locs[l], "id": None if case["flat"] else names["ns_ids"][i],
                       "values": table.get((l, i), [])})
    return out


def judge(ctx, case, hist, r, m):
    """the three comparisons for one render; returns (spec_bad, model_bad)"""
    out = r["out"]
    if not m["spec_ok_model"]:
        raise HarnessError("model violates its own proved specification: " + json.dumps(case, ensure_ascii=False))
    sd, ld = r["serde"], m["spec_decode_impl"]
    cross_check_readers(out, sd, ld)
    spec_bad = None
    if not m["spec_ok_impl"]:
        if not m["script_safe_impl"]:
            spec_bad = "script-unsafe: the script text contains </script or <!--"
        elif ld is None:
            spec_bad = "not-decodable: the script is not a valid assignment of an array of {locale,id,values}"
        else:
            spec_bad = "wrong-units: the decoded value is not exactly the units the render used"
    model_bad = None if m["model_eq_impl"] else "to_array"
    keys = {(h["locale"], h["id"]) for h in hist}
    if len(m["registered"]) != len(keys):
        model_bad = "register"
    return spec_bad, model_bad


def run_cases(binr, names, cases):
    impl = run_lines_resilient(binr, [dict(c, op="embed") for c in cases])
    lreqs, idx = [], []
    for ci, (c, r) in enumerate(zip(cases, impl)):
        if "renders" not in r:
            continue
        for ri, (h, rr) in enumerate(zip(histories(c, names), r["renders"])):
            lreqs.append({"op": "escape.embed", "hist": h, "impl": rr["out"]})
            idx.append((ci, ri, h))
    return impl, idx, lean_driver(lreqs)


def violation_payload(case, ri, hist, rr, m, why):
    return {"case": case, "render": ri, "touched": hist, "got_script": rr["out"], "serde_json": rr["serde"],
            "spec_decode": m["spec_decode_impl"], "expected_by_spec": "a script-safe script decoding to exactly the touched units; "
            "the model writes " + m["model"], "why": why, "harness": "runtime_dyn_h embed"}


def check_cases(ctx, binr, names, cases, count=True):
    impl, idx, model = run_cases(binr, names, cases)
    for ci, r in enumerate(impl):
        if "renders" not in r:
            report_violation(ctx, "embed-panics", {"case": cases[ci], "impl": r, "kind": "impl panics or crashes"})
    mism = 0
    for (ci, ri, hist), m in zip(idx, model):
        c, rr = cases[ci], impl[ci]["renders"][ri]
        spec_bad, model_bad = judge(ctx, c, hist, rr, m)
        if count:
            nontrivial = any(needs_care(s) for h in hist for s in h["values"])
            ctx.seen({"hist": hist}, nontrivial=nontrivial)
            nstr = sum(len(h["values"]) for h in m["registered"])
            ctx.count("strings_embedded", nstr)
            ctx.count("units_registered=%d" % min(len(m["registered"]), 5))
            ctx.count("flat" if c["flat"] else "namespaced")
            if len(hist) > len(m["registered"]):
                ctx.count("render_with_repeated_registration")
            if c["renders"] > 1:
                ctx.count("concurrent_renders")
            if ri == 0 and c["pre"]:
                ctx.count("registration_before_context")
            if len(ctx.samples) < 4 and nontrivial and ci % 7 == 0:
                ctx.sample({"touched": hist, "script": rr["out"]})
        if spec_bad:
            sig = "embed:" + spec_bad.split(":")[0]
            if not any(v["sig"] == sig for v in ctx.violations):
                small = shrink_case(ctx, binr, names, c, ri, sig)
                if small is not None:
                    (c2, h2, rr2, m2) = small
                    report_violation(ctx, sig, violation_payload(c2, ri, h2, rr2, m2, spec_bad))
                else:
                    report_violation(ctx, sig, violation_payload(c, ri, hist, rr, m, spec_bad))
        elif model_bad:
            mism += 1
            if not any(b["name"] == "R/embed:" + model_bad for b in ctx.broken):
                ctx.broken.append({"kind": "correspondence", "name": "R/embed:" + model_bad,
                                   "detail": {"case": c, "render": ri, "impl": rr, "model": m}})
    return mism


def shrink_case(ctx, binr, names, case, ri, sig):
    """smallest variant of the case whose render `ri` still fails with the same signature"""
    def outcome(c):
        try:
            impl, idx, model = run_cases(binr, names, [c])
        except HarnessError:
            return None
        for (ci, r, hist), m in zip(idx, model):
            if r == ri:
                try:
                    sb, _ = judge(ctx, c, hist, impl[0]["renders"][r], m)
                except HarnessError:
                    return None
                if sb and "embed:" + sb.split(":")[0] == sig:
                    return (c, hist, impl[0]["renders"][r], m)
        return None

    def ok_shape(c):
        return (isinstance(c, dict) and all(k in c for k in ("flat", "units", "renders", "pre", "steps"))
                and all(isinstance(s, list) and len(s) == 3 for s in c["steps"])
                and all(isinstance(p, list) and len(p) == 2 for p in c["pre"])
                and all(isinstance(u, dict) and "values" in u and "loc" in u and "id" in u for u in c["units"]))
    small = shrink(case, lambda c: ok_shape(c) and outcome(c) is not None, max_steps=150)
    return outcome(small)


# what harness/runtime_dyn_h/Cargo.toml configures: the embedded script must name the units by these *names*
# (`user-menu` is not its Rust identifier `user_menu`)
EXPECTED_NAMES = {"ns_locales": ["en", "fr", "pt-BR"], "ns_ids": ["common", "home", "user-menu"], "flat_locales": ["en", "fr", "pt-BR"]}


def get_names(ctx, binr):
    (names,), _ = run_lines(binr, [{"op": "names"}])
    if names != EXPECTED_NAMES:
        report_violation(ctx, "embed:unit-named-differently-from-configuration", {
            "case": {"op": "names"}, "expected_by_spec": EXPECTED_NAMES, "implementation": names,
            "why": "`Locale::as_str` / `TranslationUnitId::to_str` (what the embedded script and the client use to name a unit) must be the "
                   "configured locale and namespace names", "harness": "runtime_dyn_h names (generated by load_locales!)"})
    return EXPECTED_NAMES


# ------------------------------------------------------------------------------------------------
# real renders: generated accessors inside the generated <I18nContextProvider>

HOWS = ["eager_string", "eager_display", "reactive_view", "td_string"]
EAGER = {"eager_string", "eager_display", "td_string"}
SCRIPT_PREFIX = "window.__LEPTOS_I18N_TRANSLATIONS = "
REAL_KEY = "k"


def real_files(names):
    """(locale index, namespace index) -> the unit as configured: names, the text of the accessed key, and the unit's
    strings = the values of the locale file in key order (what `load_locales!` puts into `STRINGS` for plain strings)"""
    out = {}
    for li, loc in enumerate(names["ns_locales"]):
        for ni, ns in enumerate(names["ns_ids"]):
            with open(os.path.join(HARNESS_DIR, "runtime_dyn_h", "locales", loc, ns + ".json"), encoding="utf-8") as f:
                d = json.load(f)
            out[(li, ni)] = {"locale": loc, "id": ns, "text": d[REAL_KEY], "values": [d[k] for k in sorted(d)]}
    return out


def gen_real(rng):
    pool = [(rng.below(3), rng.below(3)) for _ in range(rng.range(1, 3))]
    hows = HOWS if not rng.chance(1, 4) else [rng.pick(HOWS)]
    sub_some = rng.chance(1, 3)
    renders = []
    for _ in range(rng.range(1, 4)):
        acc = []
        for _ in range(rng.weighted([(2, 0), (5, 1), (4, 2), (3, 3), (1, 4), (1, 5)])):
            (l, n) = rng.pick(pool) if not rng.chance(1, 5) else (rng.below(3), rng.below(3))
            acc.append({"ns": n, "locale": l, "how": rng.pick(hows)})
            if sub_some and rng.chance(1, 2):
                acc[-1]["sub"] = True      # rendered below an <I18nSubContextProvider> of the same page: its units belong to the page's script too
        renders.append(acc)
    return {"real": True, "renders": renders}


def _acc(n, l, how):
    return {"ns": n, "locale": l, "how": how}


REAL_CORPUS = [{"real": True, "renders": r} for r in (
    [[]],
    # a unit read only eagerly, while the children are built
    [[_acc(0, 0, "eager_string")]], [[_acc(1, 1, "eager_display")]], [[_acc(2, 2, "td_string")]],
    [[_acc(2, 0, "eager_string"), _acc(1, 0, "reactive_view")]],
    # the same unit in consecutive renders of one process
    [[_acc(1, 0, "reactive_view")], [_acc(1, 0, "reactive_view")]],
    [[_acc(2, 1, "eager_string")], [], [_acc(2, 1, "td_string"), _acc(0, 1, "reactive_view")], [_acc(2, 1, "reactive_view")]],
    [[_acc(n, l, HOWS[(n + l) % 4]) for l in range(3) for n in range(3)][:5], [_acc(n, l, HOWS[(n + 2 * l) % 4]) for n in range(3) for l in range(3)][4:9]],
)]
# units touched only below a sub-context provider, next to units touched by the page itself
REAL_CORPUS += [{"real": True, "renders": [[_acc(0, 0, "eager_string"), dict(_acc(0, 1, h), sub=True), dict(_acc(1, 1, "reactive_view"), sub=True)]]} for h in ("eager_string", "reactive_view", "td_string")]
REAL_CORPUS += [{"real": True, "renders": [[dict(_acc(2, 2, "eager_display"), sub=True)], [dict(_acc(2, 2, "reactive_view"), sub=True), _acc(0, 0, "reactive_view")]]}]
# every (namespace, locale, how) alone, as the first render of a process and again as the second
REAL_CORPUS += [{"real": True, "renders": [[_acc(n, l, h)], [_acc(n, l, h)]]} for n in range(3) for l in range(3) for h in HOWS]


def real_touched(files, accesses):
    return [{"locale": files[(a["locale"], a["ns"])]["locale"], "id": files[(a["locale"], a["ns"])]["id"],
             "values": files[(a["locale"], a["ns"])]["values"]} for a in accesses]


def page_texts(html_text, n):
    """the text of `<span id="a{i}">` for i < n, as a browser shows it (None when the element is not there)"""
    out = []
    for i in range(n):
        m = _re.search(r'<span id="a%d">(.*?)</span>' % i, html_text, _re.S)
        out.append(None if m is None else _html.unescape(_re.sub(r"<!--.*?-->|<!>", "", m.group(1), flags=_re.S)))
    return out


def cross_check_readers(out, sd, ld):
    """the Lean reader against serde_json (serde also accepts raw U+2028/U+2029, the Lean js reader does not)"""
    if ld is not None and "ok" not in sd:
        raise HarnessError("Lean reader accepts a script serde_json rejects: " + json.dumps(out))
    if ld is not None and sd["ok"] != ld:
        raise HarnessError("Lean reader and serde_json decode differently: " + json.dumps(out))
    if ld is None and "ok" in sd and "\u2028" not in out and "\u2029" not in out:
        raise HarnessError("serde_json accepts a script the Lean reader rejects: " + json.dumps(out))


def judge_real(files, case, ri, rr, m, memo):
    """one rendered page against the property.  Returns (problems, model_bad): problems = [(signature suffix, why)].
    `memo`: unit key -> strings it had in an earlier render."""
    accesses = case["renders"][ri]
    touched = real_touched(files, accesses)
    probs = []
    scripts = [s for s in rr["scripts"] if SCRIPT_PREFIX.strip() in s or "__LEPTOS_I18N_TRANSLATIONS" in s]
    if len(rr["scripts"]) != 1 or len(scripts) != 1:
        probs.append(("script-count", "the page must hold exactly one <script> element, the one assigning "
                      "window.__LEPTOS_I18N_TRANSLATIONS; found %d script element(s)" % len(rr["scripts"])))
        return probs, None
    if m is None:
        raise HarnessError("no Lean verdict for a page with one script")
    if not m["spec_ok_model"]:
        raise HarnessError("model violates its own proved specification: " + json.dumps(case, ensure_ascii=False))
    out = scripts[0]
    ld = m["spec_decode_impl"]
    cross_check_readers(out, rr["serde"][0], ld)
    want = {}
    for u in touched:
        want[(u["locale"], u["id"])] = u["values"]
    mine = []           # the comparison spelled out here (finer signatures); must agree with Spec.embedOk
    if not m["script_safe_impl"]:
        mine.append(("script-unsafe", "the script text contains </script or <!--"))
    if ld is None:
        mine.append(("not-decodable", "the script is not `window.__LEPTOS_I18N_TRANSLATIONS = [ {locale,id,values}.. ];`"))
    else:
        got_keys = [(u["locale"], u["id"]) for u in ld]
        for k in sorted(want, key=str):
            if k not in got_keys:
                mine.append(("unit-missing", "unit %s/%s was used by this render (its text is on the page) but the script does not list it" % k))
        for k in sorted(set(got_keys), key=str):
            if k not in want:
                mine.append(("unit-extra", "the script lists unit %s/%s, which this render did not use" % k))
            if got_keys.count(k) > 1:
                mine.append(("unit-twice", "the script lists unit %s/%s %d times" % (k + (got_keys.count(k),))))
        for u in ld:
            k = (u["locale"], u["id"])
            if k in want and u["values"] != want[k]:
                mine.append(("wrong-strings", "unit %s/%s is listed with strings that are not the strings of its locale file" % k))
            if k in memo and memo[k] != u["values"]:
                mine.append(("unit-differs-between-renders", "unit %s/%s had other strings in an earlier render" % k))
            memo.setdefault(k, u["values"])
    # (the Lean specification judges one render; "differs between renders" looks across renders and is the check's alone)
    if bool([x for x in mine if x[0] != "unit-differs-between-renders"]) == bool(m["spec_ok_impl"]):
        raise HarnessError("Spec.embedOk (%s) and the comparison in the check (%s) disagree on %s" % (m["spec_ok_impl"], mine, json.dumps(out)))
    probs += mine
    # what the accessors returned / what the page shows
    shown = page_texts(rr["html"], len(accesses))
    listed = {(u["locale"], u["id"]): u["values"] for u in (ld or [])}
    if len(rr["texts"]) != len(accesses):
        raise HarnessError("harness logged %d texts for %d accesses" % (len(rr["texts"]), len(accesses)))
    for i, (a, t, sh) in enumerate(zip(accesses, rr["texts"], shown)):
        f = files[(a["locale"], a["ns"])]
        if sh is None or (a["how"] in EAGER and sh != t) or (a["how"] not in EAGER and t is not None):
            raise HarnessError("access %d: page shows %r, accessor returned %r: %s" % (i, sh, t, json.dumps(rr["html"])))
        if sh != f["text"]:
            probs.append(("accessor-text", "access %d (%s of %s/%s) yields %r, the locale file says %r" % (i, a["how"], f["locale"], f["id"], sh, f["text"])))
        k = (f["locale"], f["id"])
        if k in listed and sh not in listed[k]:
            probs.append(("text-not-in-unit", "access %d (%s of %s/%s) shows %r, which is not among the strings the script lists for that unit" % (i, a["how"], f["locale"], f["id"], sh)))
    model_bad = None
    if not probs:
        if not m["model_eq_impl"]:
            model_bad = "to_array"
        elif len(m["registered"]) != len(want):
            model_bad = "register"
    return probs, model_bad


def run_real(binr, files, cases):
    impl = run_lines_resilient(binr, [{"op": "render_real", "renders": c["renders"]} for c in cases])
    lreqs, idx = [], []
    for ci, (c, r) in enumerate(zip(cases, impl)):
        if "renders" not in r:
            continue
        for ri, rr in enumerate(r["renders"]):
            if len(rr["scripts"]) == 1:
                lreqs.append({"op": "escape.embed", "hist": real_touched(files, c["renders"][ri]), "impl": rr["scripts"][0]})
                idx.append((ci, ri))
    return impl, dict(zip(idx, lean_driver(lreqs)))


def real_outcomes(binr, files, case):
    """[(render index, problems, model_bad, page, lean verdict)] of one request run in a process of its own; None = panic"""
    impl, model = run_real(binr, files, [case])
    if "renders" not in impl[0]:
        return None, impl[0]
    memo, out = {}, []
    for ri, rr in enumerate(impl[0]["renders"]):
        probs, mb = judge_real(files, case, ri, rr, model.get((0, ri)), memo)
        out.append((ri, probs, mb, rr, model.get((0, ri))))
    return out, impl[0]


def real_payload(files, case, ri, probs, rr, m):
    return {"case": case, "render": ri, "accesses_of_that_render": case["renders"][ri],
            "touched_units": real_touched(files, case["renders"][ri]),
            "got_script": rr["scripts"], "got_html": rr["html"], "accessor_texts": rr["texts"], "serde_json": rr["serde"],
            "spec_decode": None if m is None else m["spec_decode_impl"],
            "expected_by_spec": "one script-safe <script> decoding to exactly the touched units, each once, with the strings of its locale file"
                                + ("" if m is None else "; the model writes " + m["model"]),
            "why": [w for _, w in probs], "all_signatures": ["embed:real-render-" + s for s, _ in probs],
            "harness": "runtime_dyn_h render_real (all renders of `case` in one fresh process, in order)"}


def ok_real_shape(c):
    return (isinstance(c, dict) and c.get("real") is True and isinstance(c.get("renders"), list) and len(c["renders"]) >= 1
            and all(isinstance(r, list) and all(isinstance(a, dict) and a.get("ns") in (0, 1, 2) and a.get("locale") in (0, 1, 2)
                                                 and a.get("how") in HOWS and (len(a) == 3 or (len(a) == 4 and a.get("sub") is True)) for a in r) for r in c["renders"]))


def shrink_real(binr, files, case, sig):
    def first_failing(c):
        try:
            outs, raw = real_outcomes(binr, files, c)
        except HarnessError:
            return None
        if outs is None:
            return (0, [("panics", "the render panics or crashes: " + json.dumps(raw)[:300])], {"scripts": [], "html": None, "texts": None, "serde": None}, None) \
                if sig == "embed:real-render-panics" else None
        for (ri, probs, _, rr, m) in outs:
            if any("embed:real-render-" + s == sig for s, _ in probs):
                return (ri, probs, rr, m)
        return None
    small = shrink(case, lambda c: ok_real_shape(c) and first_failing(c) is not None, max_steps=120)
    return small, first_failing(small)


def check_real(ctx, binr, files, cases, count=True):
    """all requests go to one harness process, one after the other; a failing request is re-run alone (fresh process) and shrunk"""
    impl, model = run_real(binr, files, cases)
    memo = {}
    mism = 0
    for ci, (c, r) in enumerate(zip(cases, impl)):
        failing = []
        if "renders" not in r:
            failing.append("embed:real-render-panics")
        else:
            if count:
                ctx.count("real_requests")
            for ri, rr in enumerate(r["renders"]):
                m = model.get((ci, ri))
                probs, model_bad = judge_real(files, c, ri, rr, m, memo)
                acc = c["renders"][ri]
                if count:
                    units = {(a["locale"], a["ns"]) for a in acc}
                    earlier = {(a["locale"], a["ns"]) for rd in c["renders"][:ri] for a in rd}
                    ctx.seen({"real": c["renders"][:ri + 1]}, nontrivial=bool(units))
                    ctx.count("real_renders")
                    ctx.count("real_render_units=%d" % len(units))
                    for a in acc:
                        ctx.count("real_access:" + a["how"])
                    if units & earlier:
                        ctx.count("real_render_repeating_a_unit_of_an_earlier_render")
                    if not units:
                        ctx.count("real_render_touching_nothing")
                    for u in units:
                        kinds = {a["how"] in EAGER for a in acc if (a["locale"], a["ns"]) == u}
                        ctx.count("real_unit_touched_" + ("eagerly_and_reactively" if len(kinds) == 2 else "only_eagerly" if True in kinds else "only_reactively"))
                    if m is not None:
                        ctx.count("real_strings_embedded", sum(len(u["values"]) for u in (m["spec_decode_impl"] or [])))
                    if ri == 1 and ci % 50 == 0 and units:
                        ctx.sample({"real_renders": c["renders"][:2], "script_of_render_1": rr["scripts"]}, limit=8)
                for s, _ in probs:
                    if "embed:real-render-" + s not in failing:
                        failing.append("embed:real-render-" + s)
                if not probs and model_bad:
                    mism += 1
                    if not any(b["name"] == "R/real-render:" + model_bad for b in ctx.broken):
                        ctx.broken.append({"kind": "correspondence", "name": "R/real-render:" + model_bad,
                                           "detail": {"case": c, "render": ri, "impl": rr, "model": m}})
        for sig in failing:
            if any(v["sig"] == sig for v in ctx.violations) or any(k["sig"] == sig for k in ctx.known):
                continue
            small, f = shrink_real(binr, files, c, sig)
            if f is None:
                # fails only after the earlier requests of this process: report the whole prefix as one request
                pref = {"real": True, "renders": [rd for cc in cases[:ci + 1] for rd in cc["renders"]]}
                small, f = shrink_real(binr, files, pref, sig)
            if f is None:
                report_violation(ctx, sig, {"case": c, "why": "fails in the batch but not when re-run alone", "impl": r, "harness": "runtime_dyn_h render_real"})
            else:
                (ri, probs, rr, m) = f
                report_violation(ctx, sig, real_payload(files, small, ri, probs, rr, m))
    return mism


def run(ctx):
    lean_check(ctx, "I18nVerif.Theorems.C17", "C17_")
    binr = cargo_build(ctx, "runtime_dyn_h")
    if binr is None:
        finish_broken(ctx, "harness does not build; nothing could be run")
        write_evidence(ctx, RULE)
        return
    names = get_names(ctx, binr)
    rng = ctx.rng
    cases = list(CORPUS) + [gen_case(rng) for _ in range(ctx.budget(1500, 30000))]
    mism = 0
    for k in range(0, len(cases), 5000):
        mism += check_cases(ctx, binr, names, cases[k:k + 5000])
    ctx.extra["impl_vs_model_mismatches"] = mism
    ctx.extra["cases"] = len(cases)
    # real renders
    files = real_files(names)
    rcases = list(REAL_CORPUS) + [gen_real(rng) for _ in range(ctx.budget(3000, 30000))]
    rmism = 0
    for k in range(0, len(rcases), 3000):
        rmism += check_real(ctx, binr, files, rcases[k:k + 3000])
    ctx.extra["real_render_impl_vs_model_mismatches"] = rmism
    ctx.extra["real_render_requests"] = len(rcases)
    ctx.assumptions += [
        "the browser's HTML tokenizer and JavaScript parser agree with Spec.scriptSafe / Spec.jsDecodeEmbedded on the scripts "
        "the latter accepts (the reader accepts a sub-language of JSON, itself a sub-language of ECMAScript expressions; "
        "cross-checked against serde_json on every case)",
        "hydrate-side code (`init_translations`: Reflect::get + serde_wasm_bindgen) is not executed; it receives the value "
        "the JavaScript engine computed from the script",
        "locale names and translation-unit ids contain no quote, backslash, '<', control character, U+2028/U+2029 "
        "(language identifiers and Rust identifiers); `to_array` pushes them unescaped and the theorems assume it (UnitNamesOk)",
        "HashMap iteration order is arbitrary: the model renders the registered entries in the order observed in the implementation's output",
        "real renders: a translation unit's strings are the values of its locale file in key order (plain strings only; the check "
        "fails on the unchanged tree if this were not so); the page is rendered natively with `to_html()` under one fresh `Owner` per "
        "render, not through a server integration (no streaming, no `<head>` injection); `<span id>` texts are read back with a regular "
        "expression and `html.unescape`",
    ]
    finish_broken(ctx, f"{len(cases)} render sets and {len(rcases)} real-render requests, impl vs spec on each render")
    write_evidence(ctx, RULE)


def replay(ctx, payload):
    binr = cargo_build(ctx, "runtime_dyn_h")
    if binr is None:
        raise HarnessError("harness does not build")
    names = get_names(ctx, binr)
    if payload["case"].get("real"):
        check_real(ctx, binr, real_files(names), [payload["case"]], count=False)
    else:
        check_cases(ctx, binr, names, [payload["case"]], count=False)
    if not ctx.violations:
        print("replay: the case no longer fails")
