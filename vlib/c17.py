"""C17 — server-embedded translations survive embedding into the page.
Theorems: lean/I18nVerif/Theorems/C17.lean.  Correspondence: harness runtime_dyn_h (`embed`: the real
`RegisterCtx::{provide_context, register, to_array}` under `dynamic_load`+`ssr`, several concurrent renders,
strings supplied by the request) vs the Lean model `Escape.registered` / `Escape.toArray`; property oracle
`Spec.embedOk` (strict script reader + HTML script-safety) evaluated by the Lean driver on the
implementation's script; `serde_json` in the harness cross-checks the Lean reader."""
from .common import *

RULE = ("translation strings built from a pool of awkward characters (quotes, backslash, slash, < > & ', LF CR TAB, "
        "all C0 controls, U+007F, C1 controls, U+00A0, U+200B, U+2028, U+2029, U+FEFF, astral and boundary scalars, "
        "combining marks), awkward fragments (</script>, <!--, ]]>, \\u0041-looking text, </SCRIPT ...) and ordinary "
        "words; unit sets over a namespaced project (3 locales x 3 namespaces) and a flat one (3 locales, id null); "
        "1-3 concurrent renders with interleaved, repeated registrations, registrations before the context exists, "
        "defined-but-untouched units; non-trivial = the render registered at least one unit holding at least one "
        "string that needs escaping or is non-ASCII; distinct = distinct (render history, strings) pairs")

NASTY = (['"', '\\', '/', '<', '>', '&', "'", '\n', '\r', '\t'] + [chr(i) for i in range(0x20)] + ['\x7f']
         + [chr(i) for i in range(0x80, 0xa0)]
         + ['\u00a0', '\u200b', '\u2028', '\u2029', '\ufeff', '\U0001F600', '\u0301', '\u0308', '\u20e3',
            '\ud7ff', '\ue000', '\uffff', '\U00010000', '\U0010ffff', '\u00ad', '\u061c', '\u202e', '`', '$', '{', '}'])
FRAGS = ['</script>', '<!--', ']]>', '\\u0041', '</SCRIPT>', '</ScRiPt >', '-->', '\\"', '\\\\', '${x}', '\\n', '<script>',
         '&quot;', '\\u{a0}', '\\x41', '\\u003C', '<\\/script>', '"];alert(1);//', '\\', '"', '<', "';", '\\u2028', '\\ud83d']
WORDS = ['hello', 'Bonjour', 'olá', '日本語', 'Ünïcödé', 'a b', '0', 'Click here', 'naïve café', 'Ελληνικά', 'עברית', '👩‍👩‍👧']
# pieces the translation-file parser would interpret; only used where strings do not go through it
MARKUP = ['{{ count }}', '<b>', '</b>', '$t(x)']


def gen_string(rng, markup=True):
    n = rng.weighted([(1, 0), (4, 1), (5, 2), (4, 3), (3, 5), (1, 9)])
    out = []
    for _ in range(n):
        k = rng.below(10)
        if k < 5:
            out.append(rng.pick(NASTY))
        elif k < 7:
            out.append(rng.pick(FRAGS))
        elif k < 9 or not markup:
            out.append(rng.pick(WORDS))
        else:
            out.append(rng.pick(MARKUP))
    return "".join(out)


def needs_care(s):
    return any(c in '"\\<' or ord(c) < 0x20 or ord(c) > 0x7e for c in s)


def gen_case(rng):
    flat = rng.chance(1, 4)
    nid = 1 if flat else 3
    slots = [(l, i) for l in range(3) for i in range(nid)]
    defined = rng.sample(slots, rng.range(1, len(slots)))
    units = []
    for (l, i) in defined:
        nv = rng.weighted([(1, 0), (4, 1), (4, 2), (3, 3), (1, 6)])
        units.append({"loc": l, "id": i, "values": [gen_string(rng) for _ in range(nv)]})
    renders = rng.weighted([(5, 1), (3, 2), (1, 3)])
    steps = []
    for _ in range(rng.weighted([(1, 0), (3, 1), (4, 3), (3, 6), (1, 12)])):
        # mostly defined units, sometimes a slot nobody defined (an empty table)
        (l, i) = rng.pick(defined) if not rng.chance(1, 10) else rng.pick(slots)
        steps.append([rng.below(renders), l, i])
    pre = [list(rng.pick(defined)) for _ in range(rng.weighted([(4, 0), (1, 1), (1, 2)]))]
    return {"flat": flat, "units": units, "renders": renders, "pre": pre, "steps": steps}


CORPUS = [
    # F16 witnesses
    {"flat": True, "units": [{"loc": 0, "id": 0, "values": ["</script>"]}], "renders": 1, "pre": [], "steps": [[0, 0, 0]]},
    {"flat": True, "units": [{"loc": 0, "id": 0, "values": ["\""]}], "renders": 1, "pre": [], "steps": [[0, 0, 0]]},
    {"flat": False, "units": [{"loc": 1, "id": 2, "values": ["a\\", "b\nc", "\\u0041"]}], "renders": 1, "pre": [], "steps": [[0, 1, 2]]},
    {"flat": False, "units": [{"loc": 0, "id": 0, "values": ["<!--", "\u2028 \u2029", "\u0000\u001f"]},
                              {"loc": 2, "id": 1, "values": ["untouched"]}],
     "renders": 2, "pre": [[0, 0]], "steps": [[0, 0, 0], [1, 0, 0], [0, 0, 0]]},
    {"flat": False, "units": [{"loc": 0, "id": 0, "values": []}], "renders": 1, "pre": [], "steps": []},
]


def histories(case, names):
    """per render: the list of units it registered, in order (the `hist` of the model)"""
    table = {(u["loc"], u["id"]): u["values"] for u in case["units"]}
    locs = names["flat_locales"] if case["flat"] else names["ns_locales"]
    out = [[] for _ in range(case["renders"])]
    for (r, l, i) in case["steps"]:
        out[r].append({"locale": locs[l], "id": None if case["flat"] else names["ns_ids"][i],
                       "values": table.get((l, i), [])})
    return out


def judge(ctx, case, hist, r, m):
    """the three comparisons for one render; returns (spec_bad, model_bad)"""
    out = r["out"]
    if not m["spec_ok_model"]:
        raise HarnessError("model violates its own proved specification: " + json.dumps(case, ensure_ascii=False))
    # cross-check of the Lean reader by serde_json (serde also accepts raw U+2028/U+2029, the Lean js reader does not)
    sd, ld = r["serde"], m["spec_decode_impl"]
    if ld is not None and "ok" not in sd:
        raise HarnessError("Lean reader accepts a script serde_json rejects: " + json.dumps(out))
    if ld is not None and sd["ok"] != ld:
        raise HarnessError("Lean reader and serde_json decode differently: " + json.dumps(out))
    if ld is None and "ok" in sd and "\u2028" not in out and "\u2029" not in out:
        raise HarnessError("serde_json accepts a script the Lean reader rejects: " + json.dumps(out))
    spec_bad = None
    if not m["spec_ok_impl"]:
        if not m["script_safe_impl"]:
            spec_bad = "script-unsafe: the script text contains </script or <!--"
        elif ld is None:
            spec_bad = "not-decodable: the script is not a valid assignment of an array of {locale,id,values}"
        else:
            spec_bad = "wrong-units: the decoded value is not exactly the units the render used"
    model_bad = None if m["model_eq_impl"] else "to_array"
    keys = {(h["locale"], h["id"]) for h in hist}
    if len(m["registered"]) != len(keys):
        model_bad = "register"
    return spec_bad, model_bad


def run_cases(binr, names, cases):
    impl = run_lines_resilient(binr, [dict(c, op="embed") for c in cases])
    lreqs, idx = [], []
    for ci, (c, r) in enumerate(zip(cases, impl)):
        if "renders" not in r:
            continue
        for ri, (h, rr) in enumerate(zip(histories(c, names), r["renders"])):
            lreqs.append({"op": "escape.embed", "hist": h, "impl": rr["out"]})
            idx.append((ci, ri, h))
    return impl, idx, lean_driver(lreqs)


def violation_payload(case, ri, hist, rr, m, why):
    return {"case": case, "render": ri, "touched": hist, "got_script": rr["out"], "serde_json": rr["serde"],
            "spec_decode": m["spec_decode_impl"], "expected_by_spec": "a script-safe script decoding to exactly the touched units; "
            "the model writes " + m["model"], "why": why, "harness": "runtime_dyn_h embed"}


def check_cases(ctx, binr, names, cases, count=True):
    impl, idx, model = run_cases(binr, names, cases)
    for ci, r in enumerate(impl):
        if "renders" not in r:
            report_violation(ctx, "embed-panics", {"case": cases[ci], "impl": r, "kind": "impl panics or crashes"})
    mism = 0
    for (ci, ri, hist), m in zip(idx, model):
        c, rr = cases[ci], impl[ci]["renders"][ri]
        spec_bad, model_bad = judge(ctx, c, hist, rr, m)
        if count:
            nontrivial = any(needs_care(s) for h in hist for s in h["values"])
            ctx.seen({"hist": hist}, nontrivial=nontrivial)
            nstr = sum(len(h["values"]) for h in m["registered"])
            ctx.count("strings_embedded", nstr)
            ctx.count("units_registered=%d" % min(len(m["registered"]), 5))
            ctx.count("flat" if c["flat"] else "namespaced")
            if len(hist) > len(m["registered"]):
                ctx.count("render_with_repeated_registration")
            if c["renders"] > 1:
                ctx.count("concurrent_renders")
            if ri == 0 and c["pre"]:
                ctx.count("registration_before_context")
            if len(ctx.samples) < 4 and nontrivial and ci % 7 == 0:
                ctx.sample({"touched": hist, "script": rr["out"]})
        if spec_bad:
            sig = "embed:" + spec_bad.split(":")[0]
            if not any(v["sig"] == sig for v in ctx.violations):
                small = shrink_case(ctx, binr, names, c, ri, sig)
                if small is not None:
                    (c2, h2, rr2, m2) = small
                    report_violation(ctx, sig, violation_payload(c2, ri, h2, rr2, m2, spec_bad))
                else:
                    report_violation(ctx, sig, violation_payload(c, ri, hist, rr, m, spec_bad))
        elif model_bad:
            mism += 1
            if not any(b["name"] == "R/embed:" + model_bad for b in ctx.broken):
                ctx.broken.append({"kind": "correspondence", "name": "R/embed:" + model_bad,
                                   "detail": {"case": c, "render": ri, "impl": rr, "model": m}})
    return mism


def shrink_case(ctx, binr, names, case, ri, sig):
    """smallest variant of the case whose render `ri` still fails with the same signature"""
    def outcome(c):
        try:
            impl, idx, model = run_cases(binr, names, [c])
        except HarnessError:
            return None
        for (ci, r, hist), m in zip(idx, model):
            if r == ri:
                try:
                    sb, _ = judge(ctx, c, hist, impl[0]["renders"][r], m)
                except HarnessError:
                    return None
                if sb and "embed:" + sb.split(":")[0] == sig:
                    return (c, hist, impl[0]["renders"][r], m)
        return None

    def ok_shape(c):
        return (isinstance(c, dict) and all(k in c for k in ("flat", "units", "renders", "pre", "steps"))
                and all(isinstance(s, list) and len(s) == 3 for s in c["steps"])
                and all(isinstance(p, list) and len(p) == 2 for p in c["pre"])
                and all(isinstance(u, dict) and "values" in u and "loc" in u and "id" in u for u in c["units"]))
    small = shrink(case, lambda c: ok_shape(c) and outcome(c) is not None, max_steps=150)
    return outcome(small)


# what harness/runtime_dyn_h/Cargo.toml configures: the embedded script must name the units by these *names*
# (`user-menu` is not its Rust identifier `user_menu`)
EXPECTED_NAMES = {"ns_locales": ["en", "fr", "pt-BR"], "ns_ids": ["common", "home", "user-menu"], "flat_locales": ["en", "fr", "pt-BR"]}


def get_names(ctx, binr):
    (names,), _ = run_lines(binr, [{"op": "names"}])
    if names != EXPECTED_NAMES:
        report_violation(ctx, "embed:unit-named-differently-from-configuration", {
            "case": {"op": "names"}, "expected_by_spec": EXPECTED_NAMES, "implementation": names,
            "why": "`Locale::as_str` / `TranslationUnitId::to_str` (what the embedded script and the client use to name a unit) must be the "
                   "configured locale and namespace names", "harness": "runtime_dyn_h names (generated by load_locales!)"})
    return EXPECTED_NAMES


def run(ctx):
    lean_check(ctx, "I18nVerif.Theorems.C17", "C17_")
    binr = cargo_build(ctx, "runtime_dyn_h")
    if binr is None:
        finish_broken(ctx, "harness does not build; nothing could be run")
        write_evidence(ctx, RULE)
        return
    names = get_names(ctx, binr)
    rng = ctx.rng
    cases = list(CORPUS) + [gen_case(rng) for _ in range(ctx.budget(1500, 30000))]
    mism = 0
    for k in range(0, len(cases), 5000):
        mism += check_cases(ctx, binr, names, cases[k:k + 5000])
    ctx.extra["impl_vs_model_mismatches"] = mism
    ctx.extra["cases"] = len(cases)
    ctx.assumptions += [
        "the browser's HTML tokenizer and JavaScript parser agree with Spec.scriptSafe / Spec.jsDecodeEmbedded on the scripts "
        "the latter accepts (the reader accepts a sub-language of JSON, itself a sub-language of ECMAScript expressions; "
        "cross-checked against serde_json on every case)",
        "hydrate-side code (`init_translations`: Reflect::get + serde_wasm_bindgen) is not executed; it receives the value "
        "the JavaScript engine computed from the script",
        "locale names and translation-unit ids contain no quote, backslash, '<', control character, U+2028/U+2029 "
        "(language identifiers and Rust identifiers); `to_array` pushes them unescaped and the theorems assume it (UnitNamesOk)",
        "HashMap iteration order is arbitrary: the model renders the registered entries in the order observed in the implementation's output",
    ]
    finish_broken(ctx, f"{len(cases)} render sets, impl vs spec on each render")
    write_evidence(ctx, RULE)


def replay(ctx, payload):
    binr = cargo_build(ctx, "runtime_dyn_h")
    if binr is None:
        raise HarnessError("harness does not build")
    names = get_names(ctx, binr)
    check_cases(ctx, binr, names, [payload["case"]], count=False)
    if not ctx.violations:
        print("replay: the case no longer fails")
