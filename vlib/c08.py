"""C08 — a key's required arguments are the union over all locales.
Theorems: lean/I18nVerif/Theorems/C08.lean (get_keys collects exactly the occurrences; count conflicts; literal kinds).
Correspondence: (P) projects whose locales mix value kinds for the same key; the builder fields the real code derives
are compared with the union of the occurrences found in each locale's final value (and with the Lean model);
(X) positive probe crate: supplying exactly that set compiles and renders for every locale; thorough tier: negative
probes (omit a member / unknown argument / unknown key) must fail `cargo check`."""
from .pipe import *
from . import probe
import os, shutil
from .common import run as sh_run

RULE = ("projects whose per-locale values differ in kind and variable/component sets (string / interpolation / range / plural / literal / foreign "
        "keys renaming counts); every value key of every project is one evaluation; non-trivial = at least two locales contribute different "
        "occurrence sets; distinct = distinct (key, per-locale occurrence sets)")


def occ(v, out):
    t = v["t"]
    if t == "var":
        out["vars"].setdefault(v["key"], set()).add(json.dumps(v["fmt"], sort_keys=True))
    elif t == "comp":
        out["comps"].add(v["key"])
        occ(v["inner"], out)
    elif t == "bloc":
        for x in v["items"]:
            occ(x, out)
    elif t == "ranges":
        out["counts"].setdefault(v["count_key"], set()).add(v["ty"])
        for _, b in v["branches"]:
            occ(b, out)
    elif t == "plurals":
        out["counts"].setdefault(v["count_key"], set()).add("plural")
        for _, b in v["forms"]:
            occ(b, out)
        occ(v["other"], out)
    elif t == "fk" and v.get("set"):
        occ(v["inner"], out)


def occ_sets(values_ns_out, cfg, path):
    """(union of occurrences over the locales, per-locale summaries, value kinds) read from the locales' final values"""
    total = {"vars": {}, "comps": set(), "counts": {}}
    per_locale, kinds = [], set()
    for l in cfg["locales"]:
        v = locale_value_at(values_ns_out, l, path)
        if v is None or v["t"] in ("default", "subkeys"):
            continue
        one = {"vars": {}, "comps": set(), "counts": {}}
        occ(v, one)
        per_locale.append(json.dumps({"v": sorted(one["vars"]), "c": sorted(one["comps"]), "n": sorted(one["counts"])}))
        kinds.add(v["t"] if v["t"] != "lit" else "lit:" + v["k"])
        occ(v, total)
    return total, per_locale, kinds


def judge(val, total, kinds):
    """the builder fields `val` against the occurrence sets; returns (what, expected, got) or None"""
    if "lit" in val:
        exp_lit = len(kinds) == 1 and next(iter(kinds)).startswith("lit:")
        return None if exp_lit else ("literal accessor for non-literal", sorted(kinds), val)
    k = val["interpol"]
    got_vars = {n: {json.dumps(f, sort_keys=True) for f in info["fmts"]} for n, info in k["vars"]}
    got_counts = {n: info["count"] for n, info in k["vars"] if info["count"] is not None}
    exp_vars = dict(total["vars"])
    for ck in total["counts"]:
        exp_vars.setdefault(ck, set())
    bad = None
    if set(k["comps"]) != total["comps"]:
        bad = ("components", sorted(total["comps"]), sorted(k["comps"]))
    elif set(got_vars) != set(exp_vars):
        bad = ("variables", sorted(exp_vars), sorted(got_vars))
    else:
        for n in exp_vars:
            if exp_vars[n] - got_vars[n]:
                bad = ("formatters of " + n, sorted(exp_vars[n]), sorted(got_vars[n]))
        for ck, tys in total["counts"].items():
            if len(tys) == 1 and got_counts.get(ck) != next(iter(tys)):
                bad = ("count type of " + ck, sorted(tys), got_counts.get(ck))
            if len(tys) > 1:
                bad = ("conflicting count kinds accepted for " + ck, sorted(tys), got_counts.get(ck))
    return bad


def oracle(ctx, p, o, i):
    if "ok" not in o["ci"]:
        return
    res = o["impl"]["result"]["ok"]
    cfg = o["impl"]["cfg"]
    # the values after foreign-key resolution as the *model* computes them from the same files: by C06_populate_subst /
    # C06_resolveNode_sound they are the references' targets under substitution, so their occurrences are what the
    # source says the key uses — an expectation that does not go through the implementation's own resolution
    mres = o["model"]["ok"] if o.get("model") and "ok" in o["model"] and not project_unmodelled(p) else None
    for ns_out in res["nss"]:
        m_ns = next((n for n in mres["nss"] if n["key"] == ns_out["key"]), None) if mres else None
        for path, lv in iter_bki(ns_out["keys"]):
            total, per_locale, kinds = occ_sets(ns_out, cfg, path)
            val = lv["value"]
            ctx.seen({"path": path, "per_locale": per_locale}, nontrivial=len(set(per_locale)) > 1)
            bad = judge(val, total, kinds)
            how = "union of the occurrences in each locale's final value (implementation's dump)"
            if bad is None and m_ns is not None:
                mtotal, _, mkinds = occ_sets(m_ns, cfg, path)
                bad = judge(val, mtotal, mkinds)
                how = "union of the occurrences in each locale's value with references replaced by their targets under substitution (Lean model of resolution, C06 theorems)"
                ctx.count("keys_judged_against_resolved_source")
            if bad:
                sig = "args:literal-accessor-for-non-literal" if bad[0].startswith("literal accessor") else "args:" + bad[0].split(" of ")[0]
                report_violation(ctx, sig, {"case": project_text(p), "key_path": list(path), "what": bad[0], "expected_from": how,
                                            "expected_by_spec": bad[1], "implementation": bad[2]})
    if i % 157 == 0:
        ctx.sample({"files": proj.file_list(p)[:2]})


RANGE_TYS = ["i8", "u8", "i16", "u16", "i32", "u32", "i64", "u64", "f32", "f64"]


def kind_conflict_family(rng, n):
    """one count variable driving values of different kinds in ONE key's signature, in every order of appearance: the key `k` is a plural in
    some locales and a range (of some type) in others (the default locale is read first, so both `plural then range` and `range then
    plural` occur); and inside a single value, references to a plural and to ranges in both orders (`"$t(pl) and $t(rg)"`).
    Expected (judged by `judge` on whatever is accepted, and by the model): plural + range on one count, or two range types, is a
    conflict that is reported - whichever is met first; the same kinds on *different* count variables are fine."""
    out = []

    def rng_value(l, ty, var="count"):
        fl = ty in ("f32", "f64")
        body = [ty, proj.A([f"[{l}] low {{{{ {var} }}}}", "0.0..=1.5" if fl else "0..=1"]), proj.A([f"[{l}] rest {{{{ {var} }}}}"])]
        return proj.A(body)

    for _ in range(n):
        locs = rng.shuffle(["en", "fr", "de"])[: rng.range(2, 3)]
        kinds = {}
        files = {}
        ty_a, ty_b = rng.pick(RANGE_TYS), rng.pick(RANGE_TYS)
        for l in locs:
            pairs = [("pl_one", f"[{l}] one"), ("pl_other", f"[{l}] {{{{ count }}}} many"), ("rg", rng_value(l, ty_a)), ("rh", rng_value(l, ty_b)),
                     ("txt", f"[{l}] {{{{ count }}}} plain")]
            kind = rng.pick(["plural", "range", "range2", "var", "string"])
            kinds[l] = kind
            if kind == "plural":
                pairs += [("k_one", f"[{l}] one k"), ("k_other", f"[{l}] {{{{ count }}}} k")]
            elif kind == "range":
                pairs.append(("k", rng_value(l, ty_a)))
            elif kind == "range2":
                pairs.append(("k", rng_value(l, ty_b)))
            elif kind == "var":
                pairs.append(("k", f"[{l}] {{{{ count }}}}"))
            else:
                pairs.append(("k", f"[{l}] text"))
            # inside one value: references in both orders, sharing `count` or with one of them renamed (then no conflict)
            a, b = rng.shuffle(rng.pick([["pl", "rg"], ["pl", "rg"], ["rg", "rh"], ["pl", "txt"], ["rg", "txt"], ["pl", "rg", "rh"]]))[:2]
            if rng.chance(2, 3):
                pairs.append(("both", f"$t({a}) and $t({b})"))
            else:
                pairs.append(("both", f"$t({a}) and $t({b}, {{\"count\": \"{{{{ n }}}}\"}})"))
            files[(None, l)] = proj.O(rng.shuffle(pairs))
        out.append({"default": locs[0], "locales": locs, "all_locales": locs, "namespaces": None, "inherits": {}, "files": files,
                    "extra_cfg": False, "meta": {}, "kind_family": kinds})
    return out


def negative_probes(ctx, rng, binp, n):
    """omitting a required argument / adding an unknown one / naming an unknown key must not compile"""
    p, q, res = probe.gen_probe_project(rng, binp)
    probes = probe.build_probes(rng, p, res, res["oracle"], per_key=1, flavours=("string",))
    cands = [pr for pr in probes if " = " in pr["expr"]]
    if not cands:
        return
    tried = 0
    for pr in rng.sample(cands, min(n, len(cands))):
        expr = pr["expr"]
        inner = expr[len("td_string!("):-len(").to_string()")]
        parts = [x.strip() for x in inner.split(", ")]
        variants = []
        if len(parts) > 2:
            variants.append(("omit-argument", "td_string!(" + ", ".join(parts[:2] + parts[3:]) + ").to_string()"))
        variants.append(("unknown-argument", "td_string!(" + ", ".join(parts + ["zz_unknown = 1"]) + ").to_string()"))
        variants.append(("unknown-key", "td_string!(" + ", ".join([parts[0], "no_such_key_zz"] + parts[2:]) + ").to_string()"))
        for name, bad in variants:
            dirp = os.path.join(WORK, f"probe_{ctx.pid}_neg")
            probe.write_crate(dirp, q, [{"id": 0, "expr": bad}])
            rc, out, err = sh_run(["cargo", "check", "--offline", "--target-dir", probe.PROBE_TARGET], cwd=dirp, timeout=1800)
            tried += 1
            ctx.seen({"negative": name, "expr": bad}, nontrivial=True)
            ctx.count("negative:" + name)
            if rc == 0:
                report_violation(ctx, "args:negative-probe-compiles", {"what": name, "expression": bad, "files": q["files"],
                                                                       "expected_by_spec": "does not compile"})
            shutil.rmtree(dirp, ignore_errors=True)
    ctx.extra["negative_probes"] = tried


def run(ctx):
    rng = ctx.rng
    projects = [proj.gen_project(rng, {"fk": True, "mixed": True}) for _ in range(ctx.budget(1200, 25000))]
    generic_pipeline_check(ctx, [("I18nVerif.Theorems.C08", "C08_"), ("I18nVerif.Theorems.C08Pipeline", "C08_")], projects, oracle, "C08")
    # references over every inherits map on 4 locales x presence patterns, each locale's text taking a variable of its own: the key set of
    # a referencing key is the one of the text it resolves to in the effective locale (judged against the model-resolved values)
    from . import c06
    generic_pipeline_check(ctx, [], c06.walk_family(rng, ctx.budget(400, 8000), vars=True), oracle, "C08-fallback-walk")
    # one count variable driving a plural and a range (or two range types) in one key's signature, met in either order
    generic_pipeline_check(ctx, [], kind_conflict_family(rng, ctx.budget(400, 8000)), oracle, "C08-kind-conflicts")
    probe.run_render_probe(ctx, rng, n_crates=ctx.budget(1, 3), flavours=("string",), sig_prefix="args", per_key=1)
    binp = build_parser(ctx)
    if binp is not None:
        negative_probes(ctx, rng, binp, ctx.budget(1, 12))
    ctx.assumptions += PARSER_ASSUMPTIONS + probe.ASSUMPTIONS + ["`compiles iff exactly that set is supplied` is TypedBuilder type-state: trusted, exercised by positive and negative probe crates"]
    finish_broken(ctx, f"{len(projects)} projects")
    write_evidence(ctx, RULE)
