"""C03 — missing keys fall back along the inheritance chain, then to the default.
Theorems: lean/I18nVerif/Theorems/C03.lean. Correspondence: pipeline harness; the effective locale the real
`DefaultedLocales::default_of`/`compute` report for every key and locale is compared with an independent
walk over the `inherits` map and the files' presence pattern (and with the Lean model)."""
from .pipe import *

RULE = ("projects over 2-4 locales with random inherits maps (chains, forks, cycles, self-reference, inheritance from the default) and "
        "random presence patterns (defined / null / absent) per key and per subkey group; thorough adds the exhaustive enumeration of all "
        "inherits maps on 4 locales x presence patterns of one value key and one group; plural keys whose forms are written / null / partly null per locale; non-trivial = some locale falls back; distinct = distinct project text")


def walk(inherits, default, defined, l):
    cur, visited = l, set()
    while True:
        if defined(cur):
            return cur
        visited.add(cur)
        nxt = inherits.get(cur)
        if nxt is None:
            return default
        if nxt in visited:
            return default
        cur = nxt


def exhaustive_projects(limit=None):
    """all inherits maps on {en(default), fr, de, es} (each non-default locale: no entry or any other locale incl. itself)
    x presence of key `a` and group `g` (with leaf `x`) per non-default locale"""
    locs = ["en", "fr", "de", "es"]
    nd = locs[1:]
    import itertools
    choices = [None] + locs
    out = []
    for inh in itertools.product(choices, repeat=3):
        inherits = {l: t for l, t in zip(nd, inh) if t is not None}
        for pres in itertools.product(["defined", "null", "absent"], repeat=3):
            for gpres in itertools.product(["defined", "null", "absent", "leafnull"], repeat=3):
                files = {(None, "en"): proj.O([("a", "A-en"), ("g", proj.O([("x", "X-en")]))])}
                for l, pa, pg in zip(nd, pres, gpres):
                    pairs = []
                    if pa == "defined":
                        pairs.append(("a", "A-" + l))
                    elif pa == "null":
                        pairs.append(("a", None))
                    if pg == "defined":
                        pairs.append(("g", proj.O([("x", "X-" + l)])))
                    elif pg == "null":
                        pairs.append(("g", None))
                    elif pg == "leafnull":
                        pairs.append(("g", proj.O([("x", None)])))
                    files[(None, l)] = proj.O(pairs)
                out.append({"default": "en", "locales": locs, "all_locales": locs, "namespaces": None, "inherits": inherits,
                            "files": files, "extra_cfg": False, "meta": {}})
    return out


def plural_null_projects(rng, n):
    """a plural key `items` (forms one/other in the default locale) whose forms are, per non-default locale: all written, all null,
    only `one` null, only `other` null, absent, or the merged key itself null — x random inherits maps on en/fr/de/es.
    A null form is not a form: a locale that nulls its forms does not define the key and falls back like any other."""
    locs = ["en", "fr", "de", "es"]
    pats = ["written", "all_null", "one_null", "other_null", "absent", "key_null", "three_forms_one_null"]
    out = []
    for _ in range(n):
        inherits = {}
        for l in locs[1:]:
            t = rng.pick([None, None] + locs)
            if t is not None:
                inherits[l] = t
        files = {(None, "en"): proj.O([("items_one", "one item"), ("items_other", "{{ count }} items"), ("a", "A-en")])}
        for l in locs[1:]:
            pat = rng.pick(pats)
            pairs = [("a", "A-" + l)]
            if pat == "written":
                pairs += [("items_one", "un-" + l), ("items_other", "{{ count }}-" + l)]
            elif pat == "all_null":
                pairs += [("items_one", None), ("items_other", None)]
            elif pat == "one_null":
                pairs += [("items_one", None), ("items_other", "{{ count }}-" + l)]
            elif pat == "other_null":
                pairs += [("items_one", "un-" + l), ("items_other", None)]
            elif pat == "key_null":
                pairs += [("items", None)]
            elif pat == "three_forms_one_null":
                pairs += [("items_one", "un-" + l), ("items_few", None), ("items_other", "{{ count }}-" + l)]
            files[(None, l)] = proj.O(rng.shuffle(pairs))
        out.append({"default": "en", "locales": locs, "all_locales": locs, "namespaces": None, "inherits": inherits,
                    "files": files, "extra_cfg": False, "meta": {}})
    return out


def empty_value_projects(rng, n):
    """a key whose text is empty — written `""`, or made only of references that resolve to `""` — is *defined*: the locale
    keeps its own (empty) text and does not fall back.  x random inherits maps on en/fr/de/es and null/absent in other locales"""
    locs = ["en", "fr", "de", "es"]
    out = []
    for _ in range(n):
        inherits = {}
        for l in locs[1:]:
            t = rng.pick([None, None] + locs)
            if t is not None:
                inherits[l] = t
        files = {}
        for l in locs:
            # (in the default locale `nothing` is ordinary text: a default locale without a value is an error, not a fallback)
            pairs = [("empty", ""), ("nothing", "N-en" if l == "en" else rng.pick(["$t(empty)", "$t(empty)", "N-" + l]))]
            for k in ("suffix", "badge"):
                r = rng.below(6) if l != "en" else 0
                if r == 0:
                    pairs.append((k, f"{k}-{l}"))
                elif r == 1:
                    pairs.append((k, ""))
                elif r == 2:
                    pairs.append((k, "$t(empty)"))
                elif r == 3:
                    pairs.append((k, "$t(nothing)$t(empty)"))
                elif r == 4:
                    pairs.append((k, None))
            files[(None, l)] = proj.O(rng.shuffle(pairs))
        out.append({"default": "en", "locales": locs, "all_locales": locs, "namespaces": None, "inherits": inherits,
                    "files": files, "extra_cfg": False, "meta": {}})
    return out


def oracle(ctx, p, o, i):
    if "ok" not in o["ci"]:
        return
    res = o["impl"]["result"]["ok"]
    cfg = o["impl"]["cfg"]
    inherits = dict(cfg["inherits"])
    default = cfg["default"]
    fell_back = False
    for ns_out in res["nss"]:
        ns = ns_out["key"]
        for path, lv in iter_bki(ns_out["keys"]):
            if any(plural_split(k) for k in path):
                pass
            eff = dict(lv["defaults"]["effective"])
            for l in cfg["locales"]:
                tree = p["files"].get((ns, l))
                if tree is None:
                    continue
                merged_default = merged_key_tree(p["files"][(ns, default)])

                def defined(x, ns=ns, path=path):
                    t = p["files"].get((ns, x))
                    if t is None:
                        return False
                    cur = merged_key_tree(t)
                    for j, k in enumerate(path):
                        if not isinstance(cur, dict) or k not in cur:
                            return False
                        cur = cur[k]
                        if cur == "null":
                            return False
                    return True
                exp = walk(inherits, default, defined, l)
                if exp != l:
                    fell_back = True
                if eff.get(l) != exp:
                    report_violation(ctx, "fallback:wrong-effective-locale", {
                        "case": project_text(p), "namespace": ns, "key_path": list(path), "locale": l,
                        "expected_by_spec": exp, "implementation": eff.get(l), "inherits": inherits, "default": default,
                        "harness": "parser_h pipeline (DefaultedLocales::default_of)"})
            # the arms `x | defaulted(x)` partition the locales
            comp = lv["defaults"]["compute"]
            # ... and each arm `t | l1 | l2` holds exactly the locales whose walk ends at `t`
            exp_groups = {}
            for l in cfg["locales"]:
                if p["files"].get((ns, l)) is None:
                    continue

                def defined2(x, ns=ns, path=path):
                    t = p["files"].get((ns, x))
                    if t is None:
                        return False
                    cur = merged_key_tree(t)
                    for k in path:
                        if not isinstance(cur, dict) or k not in cur:
                            return False
                        cur = cur[k]
                        if cur == "null":
                            return False
                    return True
                if not defined2(l):
                    exp_groups.setdefault(walk(inherits, default, defined2, l), set()).add(l)
            got_groups = {t: set(ls) for t, ls in comp}
            if got_groups != exp_groups:
                report_violation(ctx, "fallback:match-arms-differ-from-walk", {
                    "case": project_text(p), "namespace": ns, "key_path": list(path), "inherits": inherits, "default": default,
                    "expected_by_spec": {t: sorted(v) for t, v in exp_groups.items()}, "implementation": {t: sorted(v) for t, v in got_groups.items()},
                    "harness": "parser_h pipeline (DefaultedLocales::compute)"})
            seen = [x for _, ls in comp for x in ls]
            if len(seen) != len(set(seen)):
                report_violation(ctx, "fallback:arms-overlap", {"case": project_text(p), "key_path": list(path), "compute": comp})
            if default in seen:
                report_violation(ctx, "fallback:default-defaults", {"case": project_text(p), "key_path": list(path), "compute": comp})
    ctx.seen(project_text(p), nontrivial=fell_back)
    if i % 211 == 0:
        ctx.sample({"files": proj.file_list(p), "inherits": p["inherits"]})


def run(ctx):
    rng = ctx.rng
    projects = []
    corpus = exhaustive_projects()
    if ctx.quick:
        projects += rng.sample(corpus, 1200)
    else:
        projects += corpus
        ctx.extra["exhaustive_part"] = f"all {len(corpus)} (inherits map x presence pattern) combinations on 4 locales for one value key and one subkey group"
    opts = {"fk": False, "mixed": True}
    for _ in range(ctx.budget(800, 12000)):
        p = proj.gen_project(rng, opts)
        projects.append(p)
    projects += plural_null_projects(rng, ctx.budget(300, 6000))
    projects += empty_value_projects(rng, ctx.budget(200, 4000))
    generic_pipeline_check(ctx, [("I18nVerif.Theorems.C03", "C03_")], projects, oracle, "C03")
    # the feature `suppress_key_warnings` only silences diagnostics: the fallback (incl. `inherits`) is the same in that build
    sup = rng.sample(corpus, ctx.budget(300, 3000)) + [proj.gen_project(rng, opts) for _ in range(ctx.budget(200, 2000))]
    generic_pipeline_check(ctx, [], sup, oracle, "C03-suppress", suppress=True)
    # a key read *through a reference* (`$t(a)`) is read by the same walk: every inherits map on 4 locales x presence pattern of the target,
    # the referencing keys themselves reached through the fallback (chains of two and three hops; family and oracle shared with C06)
    from . import c06
    generic_pipeline_check(ctx, [], c06.walk_family(rng, ctx.budget(500, 8000)), c06.walk_family_oracle, "C03-through-references")
    # the generated `match locale { L::x | L::defaulted… => … }` of every accessor kind (string, interpolation, number / boolean literal,
    # range, plural, subkeys) compiled and run: a locale that falls back must be covered by an arm and render the effective locale's value
    from . import probe
    probe.run_render_probe(ctx, rng, n_crates=ctx.budget(1, 3), flavours=("string",), sig_prefix="fallback", per_key=1,
                           opts={"formatted_keys": False, "long_key": False})
    # the same generated `match`es in the server build of lazily loaded translations (`dynamic_load` + `ssr`): every locale that falls back
    # must be covered there too (compile only)
    probe.compile_only_probe(ctx, rng, probe.DYN_SSR_FEATURES, "fallback", opts={"formatted_keys": False, "long_key": False})
    ctx.assumptions += PARSER_ASSUMPTIONS
    finish_broken(ctx, f"{len(projects)} projects")
    write_evidence(ctx, RULE)
