"""C15 — initial locale resolution follows the documented precedence.
Theorems: lean/I18nVerif/Theorems/C15.lean.  Correspondence: harness ctx_h (`resolve`: real `I18nContext`s created
natively under `ssr` with injected cookie / Accept-Language getters) vs the Lean model `Resolve.initRoot / initSub /
resolveWithOptions`; property oracle `Resolve.Spec.rootLocale / subLocale` (+ `Langid.Spec.acceptable` for the
negotiated tier) evaluated by the Lean driver on the implementation's answer."""
import itertools
from .common import *

RULE = ("exhaustive product, both tiers: {cookie absent, each configured name, invalid values incl. case variants, "
        "white space, prefixes/extensions of names, percent-encoded and quoted values} x {cookies enabled, disabled} x "
        "{default cookie name, custom name with a decoy cookie under the default name, default name while the request only "
        "carries a differently named cookie, custom name while the request only carries the default-named cookie} x "
        "Accept-Language headers (none, empty, single, lists with and without a space after the comma, q-values that do "
        "not change the order, unsupported, malformed, wildcard) x {main context, the generated <I18nContextProvider> component with its "
        "html-attribute props unset / true / false, resolve_locale_with_options alone and under an already provided context showing another locale, "
        "sub-context without parent, sub-context under a parent showing each locale, the <I18nSubContextProvider> component alone and after a sibling provider showing another locale} x {initial locale given or not}; "
        "non-trivial = a cookie is present in the request or the header has at least one entry; distinct = distinct cases")

DEFAULT_COOKIE = "i18n_pref_locale"
CUSTOM_COOKIE = "lang"

# cookie values that are not configured names (the jar value actually seen is taken from leptos-use, see `cookie_seen`)
INVALID_VALUES = ["", "EN", "Fr", "en-us", "en_US", "EN-US", "e", "fr-", "fr-C", "fr-CAN", "frfr", "english", "xx",
                  "de,en", "*", "en-US-x", "f r", "null", "0", "fr%2DCA%21", "é"]
# values that are names once surrounding white space / quoting / percent-encoding is undone by the cookie jar
WRAPPED_VALUES = [" fr", "fr ", "%20de%20", "%66r", "\tfr-CA", "de;"]
INVALID_VALUES += ["\"en-US\""]   # the jar keeps the quotes: not a name

HEADERS = [
    None, "", "fr", "de", "fr-CA", "en-US,en;q=0.9", "fr-FR, en;q=0.5", "xx, fr", "xx,yy;q=0.1", "de-AT;q=0.9, fr;q=0.8",
    "*", "en_US", ";;,,", "fr;q=0.9;x=1,de;q=0.8", " de ", "zz ,\tfr-CA", "FR", "tlh, de-CH-1996, fr", "fr-CA-x-foo,de",
    "en-GB, en-US;q=0.9, fr;q=0.8, *;q=0.1", "und, de", "toolonglanguagetag, fr-CA ,de",
]


def rfc_entries(header):
    """The Accept-Language header as a list of language ranges in header order: elements separated by ',', parameters
    after ';' dropped, optional white space (SP / HTAB) around elements removed, empty elements skipped.
    Ordering by q-value is leptos-use's business (it does not sort); generated headers have non-increasing q-values."""
    if header is None:
        return []
    out = []
    for el in header.split(","):
        tag = el.split(";", 1)[0].strip(" \t")
        if tag:
            out.append(tag)
    return out


def q_values(header):
    qs = []
    for el in (header or "").split(","):
        q = 1.0
        for par in el.split(";")[1:]:
            k, _, v = par.strip(" \t").partition("=")
            if k.strip().lower() == "q":
                try:
                    q = float(v)
                except ValueError:
                    q = 1.0
        if el.split(";", 1)[0].strip(" \t"):
            qs.append(q)
    return qs


def leptos_use_entries(header):
    """leptos-use 0.15 `use_locales` on the server (mirrored here only to know which strings the ICU oracle must parse;
    the list actually seen is returned by the harness and compared)."""
    h = header or ""
    return [el.split(";", 1)[0] for el in h.split(",")]


def cookie_headers(names):
    """(label, value or None) — the value placed in the cookie the case is about"""
    vals = [("absent", None)]
    vals += [("valid:" + n, n) for n in names]
    vals += [("invalid:" + v, v) for v in INVALID_VALUES]
    vals += [("wrapped:" + v, v) for v in WRAPPED_VALUES]
    return vals


def name_variants():
    """(label, configured cookie name or None (= default), function value -> Cookie header)"""
    return [
        ("default-name", None, lambda v: f"{DEFAULT_COOKIE}={v}"),
        ("custom-name+decoy", CUSTOM_COOKIE, lambda v: f"other=1; {CUSTOM_COOKIE}={v}; {DEFAULT_COOKIE}=de"),
        ("default-name,other-cookie-only", None, lambda v: f"{CUSTOM_COOKIE}={v}; theme=dark"),
        ("custom-name,default-cookie-only", CUSTOM_COOKIE, lambda v: f"{DEFAULT_COOKIE}={v}"),
    ]


class Interner:
    def __init__(self):
        self.t = {}

    def at(self, x):
        if x is None:
            return None
        return self.t.setdefault(x.lower(), len(self.t) + 1)

    def conv(self, l):
        if l is None:
            return None
        return {"l": self.at(l["l"]), "s": self.at(l["s"]), "r": self.at(l["r"]), "v": [self.at(v) for v in l["v"]]}


def gen_cases(ctx, names):
    shapes = [("root", None, None), ("fn", None, None)]
    # `resolve_locale*` called where a context is already provided (showing some locale): the answer depends on the request only
    ambients = list(names) if not ctx.quick else ["fr-CA", "en"]
    inits = [None] + (list(names) if not ctx.quick else ["fr-CA", "en"])
    for parent in [None] + list(names):
        for init in inits:
            shapes.append(("sub", parent, init))
    cases = []
    for (clabel, cval) in cookie_headers(names):
        for (nlabel, cname, mk) in name_variants():
            if cval is None and nlabel != "default-name":
                continue
            ch = None if cval is None else mk(cval)
            for enabled in (True, False):
                for hdr in HEADERS:
                    for (kind, parent, init) in shapes:
                        cases.append({"kind": kind, "cookie_header": ch, "enable_cookie": enabled, "cookie_name": cname,
                                      "accept_language": hdr, "parent": parent, "initial": init,
                                      "_cookie": clabel.split(":")[0], "_name": nlabel})
                    # the generated <I18nContextProvider> component: same precedence whatever its html-attribute props say
                    for sd, sl in ((None, None), (False, None), (True, False), (None, False), (False, True)) if not ctx.quick else ((None, None), (False, None), (True, False)):
                        c = {"kind": "component", "cookie_header": ch, "enable_cookie": enabled, "cookie_name": cname,
                             "accept_language": hdr, "parent": None, "initial": None,
                             "_cookie": clabel.split(":")[0], "_name": nlabel}
                        if sd is not None:
                            c["set_dir"] = sd
                        if sl is not None:
                            c["set_lang"] = sl
                        cases.append(c)
                    # the <I18nSubContextProvider> component, alone and after a sibling provider showing another locale
                    for (parent, init, sib) in ((None, None, None), ("de", None, "fr"), ("fr-CA", None, "en-US"), ("de", "fr", "en"), (None, None, "fr")) \
                            if ctx.quick else [(pa, i, sb) for pa in [None] + list(names) for i in (None, "fr") for sb in (None, "fr", "en-US")]:
                        c = {"kind": "sub_component", "cookie_header": ch, "enable_cookie": enabled, "cookie_name": cname,
                             "accept_language": hdr, "parent": parent, "initial": init, "_cookie": clabel.split(":")[0], "_name": nlabel}
                        if sib is not None:
                            c["sibling"] = sib
                        cases.append(c)
                    for a in ambients:
                        cases.append({"kind": "fn", "cookie_header": ch, "enable_cookie": enabled, "cookie_name": cname,
                                      "accept_language": hdr, "parent": None, "initial": None, "ambient": a,
                                      "_cookie": clabel.split(":")[0], "_name": nlabel})
    return cases


FEATURE_COOKIE = [True]      # which build `evaluate` is judging (leptos_i18n with / without its `cookie` feature)


def lean_request(case, impl, names, avail, table, idx):
    hdr = case["accept_language"]
    needed = set(leptos_use_entries(hdr)) | {e.strip(" \t\n\x0c\r") for e in leptos_use_entries(hdr)} | set(rfc_entries(hdr))
    return {"op": "ctx.resolve", "kind": {"component": "root", "sub_component": "sub"}.get(case["kind"], case["kind"]), "names": names, "avail": avail, "default": 0,
            "feature_cookie": FEATURE_COOKIE[0], "cookie_flag": case["enable_cookie"], "jar_value": impl["cookie_seen"],
            "header": hdr, "parse": [[s, table[s]] for s in sorted(needed)], "spec_accepted": rfc_entries(hdr),
            "initial": None if case["initial"] is None else idx[case["initial"]],
            "parent": None if case["parent"] is None else idx[case["parent"]],
            "impl": idx[impl["locale"]]}


def strip_meta(c):
    return {k: v for k, v in c.items() if not k.startswith("_")}


def setup(ctx, nocookie=False):
    binr = cargo_build(ctx, "ctx_h", features=[], variant="nocookie") if nocookie else cargo_build(ctx, "ctx_h")
    if binr is None:
        return None
    (loc,), _ = run_lines(binr, [{"op": "locales"}])
    if loc.get("feature_cookie") is not (not nocookie):
        raise HarnessError("ctx_h build mixed up: feature_cookie=%r in the %s build" % (loc.get("feature_cookie"), "nocookie" if nocookie else "plain"))
    names = [l["name"] for l in loc["locales"]]
    if loc["default"] != names[0]:
        raise HarnessError("default locale is not get_all()[0]")
    for h in HEADERS:
        qs = q_values(h)
        if any(a < b for a, b in zip(qs, qs[1:])):
            raise HarnessError("generated header whose q-values would change the order: " + repr(h))
    tags = set()
    for h in HEADERS:
        tags |= set(leptos_use_entries(h)) | {e.strip(" \t\n\x0c\r") for e in leptos_use_entries(h)} | set(rfc_entries(h))
    tags = sorted(tags)
    (parsed,), _ = run_lines(binr, [{"op": "parse_tags", "tags": tags}])
    inter = Interner()
    avail = [inter.conv(l["langid"]) for l in loc["locales"]]
    table = {t: inter.conv(p) for t, p in zip(tags, parsed["parsed"])}
    idx = {n: i for i, n in enumerate(names)}
    return binr, names, avail, table, idx, inter


def evaluate(ctx, binr, names, avail, table, idx, cases, record=True):
    """returns a list of (case, impl, lean, spec_bad, model_bad)"""
    impl = run_lines_resilient(binr, [dict(strip_meta(c), op="resolve") for c in cases])
    lreqs, keep = [], []
    out = []
    for c, r in zip(cases, impl):
        if "panic" in r or "crash" in r or "bad_op" in r or "bad_line" in r:
            report_violation(ctx, "resolve-panics", {"case": strip_meta(c), "impl": r, "kind": "creating the context panics",
                                                     "harness": "ctx_h resolve"})
            continue
        lreqs.append(lean_request(c, r, names, avail, table, idx))
        keep.append((c, r))
    model = lean_driver(lreqs)
    for (c, r), m in zip(keep, model):
        if not m["spec_ok_model"]:
            raise HarnessError("model violates its own proved specification: " + json.dumps(strip_meta(c)))
        spec_bad = None
        if not m["spec_ok_impl"]:
            spec_bad = f"{c['kind']}:{m['spec_tier']}"
        model_bad = None
        if idx[r["locale"]] != m["model"]:
            model_bad = "locale"
        elif r["accepted_seen"] != m["accepted_model"]:
            model_bad = "use_locales"
        else:
            exp_cookie_name = c["cookie_name"] or DEFAULT_COOKIE
            exp_set = [f"{exp_cookie_name}={names[i]}" for i in m["model_set_cookie"]]
            if r["set_cookie"] != exp_set:
                model_bad = "set_cookie"
        out.append((c, r, m, spec_bad, model_bad))
    return out


def run(ctx):
    lean_check(ctx, "I18nVerif.Theorems.C15", "C15_")
    lean_check(ctx, "I18nVerif.Theorems.C15Feature", "C15_")
    st = setup(ctx)
    if st is None:
        finish_broken(ctx, "harness does not build; nothing could be run")
        return
    binr, names, avail, table, idx, _ = st
    cases = gen_cases(ctx, names)
    ctx.extra["exhaustive"] = True
    ctx.extra["exhaustive_part"] = ("the whole product described in `rule` (the thorough tier additionally gives every "
                                    "locale as explicit initial locale)")
    mism = 0
    naive_diff = 0
    # the second build: leptos_i18n WITHOUT its `cookie` feature — no kind of context may consult a cookie there (same cases, a sample in the quick tier)
    st2 = setup(ctx, nocookie=True)
    runs = [(True, binr, cases)]
    if st2 is not None:
        sub = cases if not ctx.quick else [c for c in cases if c["cookie_header"] is not None and ctx.rng.chance(1, 3)]
        runs.append((False, st2[0], sub))
    evaluated = []
    for feat, b, cs in runs:
        FEATURE_COOKIE[0] = feat
        for item in evaluate(ctx, b, names, avail, table, idx, cs):
            evaluated.append((feat,) + item)
    FEATURE_COOKIE[0] = True
    for n, (feat, c, r, m, spec_bad, model_bad) in enumerate(evaluated):
        pub = strip_meta(c)
        if not feat:
            pub = dict(pub, leptos_i18n_cookie_feature=False)
            ctx.count("build_without_cookie_feature")
        ctx.seen(pub, nontrivial=c["cookie_header"] is not None or bool(rfc_entries(c["accept_language"])))
        ctx.count("kind=" + c["kind"])
        ctx.count("cookie=" + c["_cookie"])
        ctx.count("name=" + c["_name"])
        ctx.count("tier=" + m["spec_tier"])
        ctx.count("cookies_enabled" if c["enable_cookie"] else "cookies_disabled")
        if c["kind"] in ("sub", "sub_component"):
            ctx.count("sub:" + ("parent" if c["parent"] else "no-parent") + "," + ("initial" if c["initial"] else "no-initial"))
        if m["model"] != m["model_no_trim"]:
            ctx.count("trimming_of_header_entries_matters")
        if spec_bad:
            report_violation(ctx, "resolve:" + spec_bad, {
                "case": pub, "got": r["locale"], "expected_by_spec": names[m["spec"]], "deciding_tier": m["spec_tier"],
                "cookie_value_seen_by_leptos_use": r["cookie_seen"], "accepted_languages_seen": r["accepted_seen"],
                "accepted_languages_by_rfc_reading": rfc_entries(c["accept_language"]), "model": names[m["model"]],
                "harness": "ctx_h resolve" + ("" if feat else " (build without leptos_i18n's `cookie` feature)"), "replay_cmd": "./check C15 --replay <this file>"})
        elif model_bad:
            mism += 1
            if not any(b["name"] == "R/resolve:" + model_bad for b in ctx.broken):
                ctx.broken.append({"kind": "correspondence", "name": "R/resolve:" + model_bad,
                                   "detail": {"case": pub, "impl": r, "model": m}})
        if n % 9973 == 0:
            ctx.sample({"case": pub, "impl": r["locale"], "model": names[m["model"]], "spec": names[m["spec"]],
                        "tier": m["spec_tier"]})
    ctx.extra["impl_vs_model_mismatches"] = mism
    ctx.extra["level_note"] = (
        "proof, thin: the C15 theorems certify for all inputs that the model composes cookie / initial / parent / "
        "negotiation in the documented order and that an invalid cookie value equals no cookie; the model is a handful of "
        "Option combinators. That the real code behaves like the model (leptos-use cookie jar and header reader, Memo "
        "first-run semantics, RwSignal::new(memo.get_untracked())) is established by this differential run only. "
        "Client-side paths (hydrate: <html lang>, csr: navigator.languages) are modelled and proved but never executed.")
    ctx.assumptions += [
        "leptos-use is an oracle: the cookie value for the configured name is what `use_cookie::<String>` returns for the same request; "
        "`use_locales` splits the header at ',' and cuts at ';' (mirrored in the model and compared with what the harness sees)",
        "ordering of Accept-Language entries by q-value is leptos-use's business (0.15 keeps header order); generated headers have non-increasing q-values",
        "the specification reads the header per RFC 9110: optional white space around list elements is not part of a language range",
        "ICU4X LanguageIdentifier parsing is an oracle (harness op parse_tags)",
        "a cookie value names a locale when it equals a configured name after removing surrounding white space (generated FromStr trims)",
        "a sub-context's cookie is the one it is configured with (cookie_name); without a cookie name no cookie is consulted",
        "single-threaded deterministic executor for leptos' isomorphic effects in the harness",
    ]
    finish_broken(ctx, f"{len(cases)} resolution cases (exhaustive product), impl vs spec on each")
    write_evidence(ctx, RULE)


def replay(ctx, payload):
    st = setup(ctx)
    if st is None:
        raise HarnessError("harness does not build")
    binr, names, avail, table, idx, inter = st
    case = strip_meta(payload["case"])
    if case.pop("leptos_i18n_cookie_feature", True) is False:
        st2 = setup(ctx, nocookie=True)
        if st2 is None:
            raise HarnessError("harness (nocookie build) does not build")
        binr = st2[0]
        FEATURE_COOKIE[0] = False
    hdr = case["accept_language"]
    need = sorted(set(leptos_use_entries(hdr)) | {e.strip(" \t\n\x0c\r") for e in leptos_use_entries(hdr)} | set(rfc_entries(hdr)))
    missing = [t for t in need if t not in table]
    if missing:
        (parsed,), _ = run_lines(binr, [{"op": "parse_tags", "tags": missing}])
        for t, p in zip(missing, parsed["parsed"]):
            table[t] = inter.conv(p)
    for (c, r, m, spec_bad, model_bad) in evaluate(ctx, binr, names, avail, table, idx, [dict(case, _cookie="?", _name="?")]):
        print(json.dumps({"case": case, "got": r["locale"], "expected_by_spec": names[m["spec"]], "tier": m["spec_tier"],
                          "violates": bool(spec_bad), "impl_equals_model": model_bad is None}, ensure_ascii=False))
        if spec_bad:
            report_violation(ctx, "resolve:" + spec_bad, {"case": case, "got": r["locale"], "expected_by_spec": names[m["spec"]]})
