#!/bin/bash
# Builds the framework offline from files on disk: Lean model/theorems/driver, the Rust harness crates
# (all feature variants) and the dependencies of the probe crates.  Everything is rebuilt incrementally by the
# checks themselves; this only warms the caches.
set -u
cd "$(dirname "$0")"
export CARGO_NET_OFFLINE=true
(cd lean && lake build I18nVerif i18n-model) || { echo "setup: lake build failed"; exit 1; }
T=/verif/harness/target
b() { # crate [target-suffix] [cargo args...]
  local c=$1; shift; local suf=$1; shift
  [ -f "harness/$c/Cargo.lock" ] || cp /repo/Cargo.lock "harness/$c/Cargo.lock"
  (cd "harness/$c" && cargo build --offline --release --target-dir "$T$suf" "$@") || echo "setup: harness $c did not build (reported by the checks that use it)"
}
b parser_h ""
b parser_h "-yaml" --no-default-features --features yaml
b parser_h "-json5" --no-default-features --features json5
b parser_h "-json-suppress" --no-default-features --features json,suppress
for c in codegen_h runtime_h router_h ctx_h runtime_dyn_h build_h locale_h fmt_h; do b $c ""; done
# ctx_h with reactive_graph's `effects` (Effect / RenderEffect run natively; C16 runs every sequence on both builds): own target dir
b ctx_h "-effects" --no-default-features --features effects,cookie
# ctx_h against leptos_i18n WITHOUT its `cookie` feature (C15: no cookie is consulted by any kind of context)
b ctx_h "-nocookie" --no-default-features
# the code generator for the other two file formats (C09: what YAML / JSON5 can say and JSON cannot)
CG="interpolate_display,plurals,format_datetime,format_list,format_nums,format_currency,icu_compiled_data,ssr"
b codegen_h "-yaml_files" --no-default-features --features "yaml_files,$CG"
b codegen_h "-json5_files" --no-default-features --features "json5_files,$CG"
# leptos_i18n WITHOUT icu_compiled_data (custom ICU data provider, C18 part v): own target dir, never shared
b fmt_np_h "-np"
b fmt_np_h "-np-derived" --no-default-features --features derived
# probe crates: compile the dependency graph of a generated user crate once
python3 - <<'PY'
import sys
sys.path.insert(0, "/verif")
from vlib.common import Ctx
from vlib import probe
ctx = Ctx("SETUP", "quick", 1)
try:
    probe.run_render_probe(ctx, ctx.rng, n_crates=1, flavours=("string",), per_key=1)
    print("setup: probe crate warm-up done", ctx.dist)
except Exception as e:
    print("setup: probe warm-up failed:", e)
try:
    # the second feature set probe crates are compiled in (C03: `dynamic_load` + `ssr`, compile only)
    probe.compile_only_probe(ctx, ctx.rng, probe.DYN_SSR_FEATURES, "setup", opts={"formatted_keys": False, "long_key": False})
    print("setup: dynamic_load+ssr probe warm-up done")
except Exception as e:
    print("setup: dynamic_load+ssr probe warm-up failed:", e)
PY
echo setup done
