#!/bin/bash
# Builds the framework offline from files on disk: Lean model/theorems/driver and the Rust harness crates.
set -e
cd "$(dirname "$0")"
export CARGO_NET_OFFLINE=true
(cd lean && lake build I18nVerif i18n-model)
for c in harness/*/; do
  if [ -f "$c/Cargo.toml" ]; then
    [ -f "$c/Cargo.lock" ] || cp /repo/Cargo.lock "$c/Cargo.lock"
    (cd "$c" && cargo build --offline --release --target-dir /verif/harness/target) || echo "setup: $c did not build (reported by the checks that use it)"
  fi
done
echo setup done
